package main

import (
	"fmt"
	"go/token"
	"go/types"
	"math"
	"sort"
	"strings"

	"golang.org/x/tools/go/ssa"
)

var _ = fmt.Sprint
var _ = strings.Contains
var _ = sort.Strings
var _ types.Type

// ---------------------------------------------------------------------------
// C03.allloops / C09.exists: search loops that give up early
// ---------------------------------------------------------------------------

func init() {
	register(&Rule{
		ID:    "C03.allloops",
		Props: []string{"C03"},
		Doc:   "validation checks every candidate: in the functions reachable from the Validate methods, a loop (of any kind: segments, intersection points, rings, members) in whose body a violation can be returned is a 'for all' check — it is left early only by returning a non-nil error; a nil return or a break out of it ('this one was fine, stop looking') leaves the remaining candidates unchecked, so the verdict depends on which vertex or member comes first",
		Floor: 3,
		Run:   runC03AllLoops,
	})
	register(&Rule{
		ID:    "C09.exists",
		Props: []string{"C09", "C02"},
		Doc:   "an existence test looks at every candidate: in the functions reachable from Intersects that return a bool, a loop in whose body `true` (a witness was found) can be returned and after which `false` is returned is an 'exists' search — `false` is never returned from inside it, and it is not left by a break that reaches the `return false` (a cheap rejection of ONE member or segment must `continue`, not answer for the rest)",
		Floor: 4,
		Run:   runC09Exists,
	})
}

// loopExitInfo lists the exit edges of the loop that leave from its body (not
// from the header's own condition).
type loopExit struct {
	from, to *ssa.BasicBlock
}

func bodyExits(h *ssa.BasicBlock, loop map[*ssa.BasicBlock]bool) []loopExit {
	var out []loopExit
	var bs []*ssa.BasicBlock
	for b := range loop {
		bs = append(bs, b)
	}
	sort.Slice(bs, func(i, j int) bool { return bs[i].Index < bs[j].Index })
	for _, b := range bs {
		if b == h {
			continue
		}
		for _, s := range b.Succs {
			if !loop[s] {
				out = append(out, loopExit{b, s})
			}
		}
	}
	return out
}

func endsInPanic(b *ssa.BasicBlock) bool {
	if len(b.Instrs) == 0 {
		return false
	}
	_, ok := b.Instrs[len(b.Instrs)-1].(*ssa.Panic)
	return ok
}

func validateReach(c *Ctx) map[*ssa.Function]bool {
	var roots []*ssa.Function
	for _, f := range c.P.Funcs {
		if pkgOf(f) != "geom" || f.Signature.Recv() == nil {
			continue
		}
		if f.Name() == "Validate" {
			roots = append(roots, f)
		}
	}
	return c.P.reachableFrom(roots...)
}

func runC03AllLoops(c *Ctx) {
	reach := validateReach(c)
	n := 0
	var fs []*ssa.Function
	for f := range reach {
		fs = append(fs, f)
	}
	sort.Slice(fs, func(i, j int) bool {
		return FuncName(fs[i]) < FuncName(fs[j]) || (FuncName(fs[i]) == FuncName(fs[j]) && fs[i].Pos() < fs[j].Pos())
	})
	for _, f := range fs {
		if pkgOf(f) != "geom" || len(f.Blocks) == 0 {
			continue
		}
		res := f.Signature.Results()
		if res.Len() == 0 || !isErrorType(res.At(res.Len()-1).Type()) {
			continue
		}
		fn := FuncName(f)
		for _, h := range f.Blocks {
			loop := naturalLoop(h)
			if loop == nil {
				continue
			}
			if _, isMember := loopOverMembers(h); isMember {
				continue // C03.forall's
			}
			exits := bodyExits(h, loop)
			errInBody := false
			for _, e := range exits {
				if r := returnAfter(e.to); r != nil && !isNilConst(r.Results[len(r.Results)-1]) {
					errInBody = true
				}
			}
			if !errInBody {
				continue
			}
			n++
			bad := ""
			for _, e := range exits {
				if endsInPanic(e.to) {
					continue
				}
				r := returnAfter(e.to)
				if r != nil && provablyNonNilErr(r) {
					continue
				}
				if r != nil && !isNilConst(r.Results[len(r.Results)-1]) {
					if ifi, ok := e.from.Instrs[len(e.from.Instrs)-1].(*ssa.If); ok {
						if bo, ok := ifi.Cond.(*ssa.BinOp); ok && isErrorType(bo.X.Type()) && isNilConst(bo.Y) {
							if (bo.Op == token.NEQ && e.from.Succs[0] == e.to) || (bo.Op == token.EQL && e.from.Succs[1] == e.to) {
								continue
							}
						}
					}
				}
				// leaving an inner loop into the enclosing loop's body is not an exit of the check
				if r == nil && inEnclosingLoop(f, h, e.to) {
					continue
				}
				pos := firstPos(e.to)
				if !pos.IsValid() {
					pos = firstPos(e.from)
				}
				bad = "left early without an error at " + c.P.Pos(pos)
			}
			lpos := firstPos(h)
			for _, b := range f.Blocks {
				if !lpos.IsValid() && loop[b] {
					lpos = firstPos(b)
				}
			}
			c.Check(bad == "", lpos, fn, fmt.Sprintf("for-all loop #%d", loopOrdinal(f, h)), "left only at the end or with an error", "a loop that can report a violation is "+bad+": the candidates after that point are never checked")
		}
	}
	if n < 3 {
		c.Errorf("only %d checking loops found in the validation code, expected >= 3", n)
	}
}

// loopOrdinal: position of the loop among the loops of f (stable under edits elsewhere).
func loopOrdinal(f *ssa.Function, h *ssa.BasicBlock) int {
	k := 0
	for _, b := range f.Blocks {
		if naturalLoop(b) != nil {
			k++
		}
		if b == h {
			return k
		}
	}
	return k
}

// inEnclosingLoop: to belongs to a loop of f (other than h's) that also contains h.
func inEnclosingLoop(f *ssa.Function, h, to *ssa.BasicBlock) bool {
	for _, g := range f.Blocks {
		if g == h {
			continue
		}
		l := naturalLoop(g)
		if l != nil && l[h] && l[to] {
			return true
		}
	}
	return false
}

func runC09Exists(c *Ctx) {
	var roots []*ssa.Function
	if f := c.P.Func("geom.Intersects"); f != nil {
		roots = append(roots, f)
	} else {
		c.Errorf("anchor geom.Intersects does not resolve")
		return
	}
	reach := c.P.reachableFrom(roots...)
	var fs []*ssa.Function
	for f := range reach {
		fs = append(fs, f)
	}
	sort.Slice(fs, func(i, j int) bool {
		return FuncName(fs[i]) < FuncName(fs[j]) || (FuncName(fs[i]) == FuncName(fs[j]) && fs[i].Pos() < fs[j].Pos())
	})
	n := 0
	for _, f := range fs {
		if pkgOf(f) != "geom" || len(f.Blocks) == 0 {
			continue
		}
		res := f.Signature.Results()
		if res.Len() != 1 {
			continue
		}
		if bt, ok := res.At(0).Type().Underlying().(*types.Basic); !ok || bt.Kind() != types.Bool {
			continue
		}
		fn := FuncName(f)
		for _, h := range f.Blocks {
			loop := naturalLoop(h)
			if loop == nil {
				continue
			}
			// what is returned when the loop runs to its end?
			var after *ssa.Return
			for _, s := range h.Succs {
				if !loop[s] {
					after = returnAfter(s)
				}
			}
			if after == nil {
				continue
			}
			dflt, ok := constBool(after.Results[0])
			if !ok || dflt {
				continue
			}
			exits := bodyExits(h, loop)
			witness := false
			for _, e := range exits {
				if r := returnAfter(e.to); r != nil {
					if b, ok := constBool(r.Results[0]); ok && b {
						witness = true
					}
				}
			}
			if !witness {
				continue
			}
			n++
			bad := ""
			for _, e := range exits {
				if endsInPanic(e.to) {
					continue
				}
				r := returnAfter(e.to)
				if r == nil {
					if inEnclosingLoop(f, h, e.to) {
						continue
					}
					bad = "left by a break at " + c.P.Pos(firstPos(e.from))
					continue
				}
				if b, ok := constBool(r.Results[0]); ok && !b {
					pos := instrPos(r)
					bad = "answered `false` from inside the loop at " + c.P.Pos(pos)
				}
			}
			c.Check(bad == "", firstPos(h), fn, fmt.Sprintf("exists loop #%d", loopOrdinal(f, h)), "`false` only after every candidate was looked at", "a search for a witness is "+bad+": the candidates after that point are never looked at")
		}
	}
	if n < 3 {
		c.Errorf("only %d existence loops found in the Intersects code, expected >= 3", n)
	}
}

// ---------------------------------------------------------------------------
// C16.force: the leaf ForceCoordinatesType implementations
// ---------------------------------------------------------------------------

func init() {
	register(&Rule{
		ID:    "C16.force",
		Props: []string{"C16", "C12"},
		Doc:   "forcing a coordinates type at the leaves: Point.ForceCoordinatesType and Sequence.ForceCoordinatesType interpreted for all 16 (old type, new type) pairs on a modelled non-empty point / two-point sequence with distinct ordinates: the result has the new type, X and Y unchanged, Z (resp. M) equal to the old Z (M) when both types have it and 0 otherwise — also in the STORED representation of a Point (a dropped ordinate must not survive in the struct to reappear when the dimension is added back); an empty point stays empty with the new type",
		Floor: 2,
		Run:   runC16Force,
	})
}

var f64T = types.Typ[types.Float64]

var intT = types.Typ[types.Int]

func runC16Force(c *Ctx) {
	inl := func(g *ssa.Function) bool {
		switch FuncName(g) {
		case "geom.(CoordinatesType).Is3D", "geom.(CoordinatesType).IsMeasured", "geom.(CoordinatesType).Dimension",
			"geom.(Sequence).Length", "geom.(Sequence).Get", "geom.(Sequence).GetXY":
			return true
		}
		return false
	}
	is3D := func(t int) bool { return t&1 != 0 } // DimXY=0, DimXYZ=1, DimXYM=2, DimXYZM=3
	isM := func(t int) bool { return t&2 != 0 }
	// sanity of the encoding assumed above
	if lookupConst(c, "geom", "DimXYZ") != 1 || lookupConst(c, "geom", "DimXYM") != 2 || lookupConst(c, "geom", "DimXYZM") != 3 {
		c.Errorf("CoordinatesType constants are not (XY,XYZ,XYM,XYZM)=(0,1,2,3) any more; C16.force must be revisited")
		return
	}
	// ---- Point
	if f := c.P.Func("geom.(Point).ForceCoordinatesType"); f == nil {
		c.Errorf("anchor geom.(Point).ForceCoordinatesType does not resolve")
	} else {
		problem, undec := "", ""
		models := 0
		for old := 0; old < 4 && problem == "" && undec == ""; old++ {
			for nw := 0; nw < 4 && problem == "" && undec == ""; nw++ {
				for _, full := range []bool{true, false} {
					models++
					z, mm := 0.0, 0.0
					if is3D(old) {
						z = 3
					}
					if isM(old) {
						mm = 4
					}
					m := &Model{Num: map[string]float64{"$0.coords.X": 1, "$0.coords.Y": 2, "$0.coords.Z": z, "$0.coords.M": mm, "$0.coords.Type": float64(old),
						"$0.coords.XY.X": 1, "$0.coords.XY.Y": 2},
						Bool: map[string]bool{"$0.full": full}, Missing: map[string]bool{}}
					it := &k4interp{p: c.P, m: m, mem: map[string]k4val{}, inline: inl}
					res, err := it.call(f, []k4val{{kind: 3, s: "$0"}, {kind: 2, f: float64(nw)}}, nil)
					if err != nil || len(res) != 1 {
						undec = fmt.Sprintf("%v %v %s", err, res, missingList(m))
						break
					}
					r := res[0]
					if !full {
						// an empty point: result must be empty and of the new type
						if r.kind == 3 && strings.HasPrefix(r.s, "geom.NewEmptyPoint(") {
							if r.s != fmt.Sprintf("geom.NewEmptyPoint(%d)", nw) {
								problem = fmt.Sprintf("forcing an empty point of type %d to %d returns %s", old, nw, r.s)
							}
							continue
						}
						if r.kind != 3 {
							undec = "unrecognised result for an empty point: " + r.String()
							break
						}
						fv, e1 := it.lookup(r.s+".full", boolT)
						tv, e2 := it.lookup(r.s+".coords.Type", intT)
						if e1 != nil || e2 != nil {
							undec = "unrecognised result for an empty point: " + r.String()
							break
						}
						if fv.b || int(tv.f) != nw {
							problem = fmt.Sprintf("forcing an empty point of type %d to %d gives full=%v type=%v", old, nw, fv.b, tv.f)
						}
						continue
					}
					if r.kind != 3 {
						undec = "unrecognised result: " + r.String()
						break
					}
					get := func(k string, t types.Type) (k4val, bool) {
						v, e := it.lookup(r.s+k, t)
						return v, e == nil
					}
					xk, yk := ".coords.X", ".coords.Y"
					if _, ok := it.m.Num["$0.coords.XY.X"]; ok {
						if _, e := it.lookup(r.s+".coords.X", f64T); e != nil {
							xk, yk = ".coords.XY.X", ".coords.XY.Y"
						}
					}
					x, ok1 := get(xk, f64T)
					y, ok2 := get(yk, f64T)
					zv, ok3 := get(".coords.Z", f64T)
					mv, ok4 := get(".coords.M", f64T)
					tv, ok5 := get(".coords.Type", intT)
					fv, ok6 := get(".full", boolT)
					if !(ok1 && ok2 && ok3 && ok4 && ok5 && ok6) {
						undec = "the returned point's fields cannot be read: " + missingList(m)
						break
					}
					wz, wm := 0.0, 0.0
					if is3D(old) && is3D(nw) {
						wz = 3
					}
					if isM(old) && isM(nw) {
						wm = 4
					}
					if !fv.b || int(tv.f) != nw || x.f != 1 || y.f != 2 || zv.f != wz || mv.f != wm {
						problem = fmt.Sprintf("POINT(1 2%s) of type %d forced to type %d is stored as (X=%v Y=%v Z=%v M=%v type=%v full=%v), expected (1 2 %v %v type %d)", map[bool]string{true: " …", false: ""}[old != 0], old, nw, x.f, y.f, zv.f, mv.f, tv.f, fv.b, wz, wm, nw)
					}
				}
			}
		}
		reportK4(c, f, "Point: all 16 type pairs x emptiness", undec, problem, fmt.Sprintf("new type, XY kept, Z/M kept iff in both types and stored as 0 otherwise, empty stays empty (%d models)", models))
	}
	// ---- Sequence
	if f := c.P.Func("geom.(Sequence).ForceCoordinatesType"); f == nil {
		c.Errorf("anchor geom.(Sequence).ForceCoordinatesType does not resolve")
	} else {
		problem, undec := "", ""
		models := 0
		dim := func(t int) int { return 2 + (t & 1) + (t>>1)&1 }
		for old := 0; old < 4 && problem == "" && undec == ""; old++ {
			for nw := 0; nw < 4 && problem == "" && undec == ""; nw++ {
				models++
				m := &Model{Num: map[string]float64{"$0.ctype": float64(old)}, Bool: map[string]bool{}, Missing: map[string]bool{}}
				it := &k4interp{p: c.P, m: m, mem: map[string]k4val{}, inline: inl}
				od := dim(old)
				it.mem["$0.floats"] = k4val{kind: 8, s: "F", ln: 2 * od, cp: 2 * od}
				// point p has ordinates 10p+1 (X), 10p+2 (Y), 10p+3 (Z), 10p+4 (M)
				for p := 0; p < 2; p++ {
					k := 0
					put := func(v float64) { it.mem[fmt.Sprintf("F[%d]", p*od+k)] = k4val{kind: 2, f: v}; k++ }
					put(float64(10*p + 1))
					put(float64(10*p + 2))
					if is3D(old) {
						put(float64(10*p + 3))
					}
					if isM(old) {
						put(float64(10*p + 4))
					}
				}
				res, err := it.call(f, []k4val{{kind: 3, s: "$0"}, {kind: 2, f: float64(nw)}}, nil)
				if err != nil || len(res) != 1 || res[0].kind != 3 {
					undec = fmt.Sprintf("%v %v %s", err, res, missingList(m))
					break
				}
				r := res[0]
				tv, e1 := it.lookup(r.s+".ctype", intT)
				fl, e2 := it.lookup(r.s+".floats", types.NewSlice(f64T))
				if e1 != nil || e2 != nil || fl.kind != 8 {
					undec = fmt.Sprintf("the returned sequence cannot be read (%v %v %v)", e1, e2, fl)
					break
				}
				nd := dim(nw)
				if int(tv.f) != nw || fl.ln != 2*nd {
					problem = fmt.Sprintf("a 2-point sequence of type %d forced to %d has type %v and %d floats, expected %d", old, nw, tv.f, fl.ln, 2*nd)
					break
				}
				for p := 0; p < 2 && problem == ""; p++ {
					want := []float64{float64(10*p + 1), float64(10*p + 2)}
					if is3D(nw) {
						if is3D(old) {
							want = append(want, float64(10*p+3))
						} else {
							want = append(want, 0)
						}
					}
					if isM(nw) {
						if isM(old) {
							want = append(want, float64(10*p+4))
						} else {
							want = append(want, 0)
						}
					}
					for k, w := range want {
						v, e := it.lookup(fmt.Sprintf("%s[%d]", fl.s, fl.off+p*nd+k), f64T)
						if e != nil {
							undec = fmt.Sprintf("float %d of the result cannot be read: %v", p*nd+k, e)
							break
						}
						if v.f != w {
							problem = fmt.Sprintf("type %d forced to %d: ordinate %d of point %d is %v, expected %v", old, nw, k, p, v.f, w)
							break
						}
					}
				}
			}
		}
		reportK4(c, f, "Sequence: all 16 type pairs", undec, problem, fmt.Sprintf("new type and stride, XY kept, Z/M carried iff in both types and 0 otherwise (%d models)", models))
	}
}

// ---------------------------------------------------------------------------
// C14.divzero / C14.weight
// ---------------------------------------------------------------------------

func init() {
	register(&Rule{
		ID:    "C14.divzero",
		Props: []string{"C14", "C20"},
		Doc:   "a centroid is a quotient and an empty geometry has none: in the centroid routines every floating-point division by a computed total (summed areas/lengths, a point count) is executed only where the divisor is known non-zero (a dominating test of that total against 0) or where the receiver is known non-empty by its own IsEmpty() — for an unexported helper, at every call site. A test of the NUMBER of members is not enough: MULTIPOLYGON(EMPTY) has one member and no area, and its centroid must be the empty point, not 0/0 or (0,0)",
		Floor: 3,
		Run:   runC14DivZero,
	})
	register(&Rule{
		ID:    "C14.weight",
		Props: []string{"C14"},
		Doc:   "each part's centroid is weighted by that part's own measure: in the centroid routines, where a term X.Centroid() scaled by a weight is added to the running sum and the weight is a Length()/Area() call, the measure is taken of the very same element X (same SSA value or the same member accessor with the same index) — not of the enclosing collection or another member",
		Floor: 1,
		Run:   runC14Weight,
	})
}

func centroidFamily(c *Ctx) []*ssa.Function {
	var out []*ssa.Function
	for _, f := range c.P.Funcs {
		if pkgOf(f) != "geom" || len(f.Blocks) == 0 {
			continue
		}
		if strings.Contains(strings.ToLower(FuncName(rootFunc(f))), "centroid") {
			out = append(out, f)
		}
	}
	sort.Slice(out, func(i, j int) bool {
		return FuncName(out[i]) < FuncName(out[j]) || (FuncName(out[i]) == FuncName(out[j]) && out[i].Pos() < out[j].Pos())
	})
	return out
}

// nonZeroGuarded: some guard holding at `in` excludes v == 0.
func nonZeroGuarded(in ssa.Instruction, v ssa.Value) bool {
	v = stripConv(v)
	for _, g0 := range guardsAt(in) {
		for _, g := range expandGuard(g0) {
			bo, ok := g.Cond.(*ssa.BinOp)
			if !ok {
				continue
			}
			x, y := stripConv(bo.X), stripConv(bo.Y)
			isZero := func(v ssa.Value) bool {
				if k, ok := v.(*ssa.Const); ok && k.Value != nil {
					if f, ok := constantFloat(k); ok && f == 0 {
						return true
					}
					if i, ok := constInt(k); ok && i == 0 {
						return true
					}
				}
				return false
			}
			var other ssa.Value
			op := bo.Op
			switch {
			case isZero(y):
				other = x
			case isZero(x):
				other = y
				// flip
				switch op {
				case token.LSS:
					op = token.GTR
				case token.GTR:
					op = token.LSS
				case token.LEQ:
					op = token.GEQ
				case token.GEQ:
					op = token.LEQ
				}
			default:
				continue
			}
			if !sameQuantity(other, v) {
				continue
			}
			switch {
			case op == token.EQL && !g.Truth, op == token.NEQ && g.Truth, op == token.GTR && g.Truth, op == token.LEQ && !g.Truth,
				op == token.LSS && g.Truth, op == token.GEQ && !g.Truth:
				return true
			}
		}
	}
	return false
}

func stripConv(v ssa.Value) ssa.Value {
	for {
		switch x := v.(type) {
		case *ssa.Convert:
			v = x.X
			continue
		case *ssa.ChangeType:
			v = x.X
			continue
		}
		return v
	}
}

// sameQuantity: a and b denote the same variable: same SSA value, or loads of the same cell
func sameQuantity(a, b ssa.Value) bool {
	a, b = stripConv(a), stripConv(b)
	if a == b || sameValue(a, b) {
		return true
	}
	la, ok1 := a.(*ssa.UnOp)
	lb, ok2 := b.(*ssa.UnOp)
	if ok1 && ok2 && la.Op == token.MUL && lb.Op == token.MUL && la.X == lb.X {
		return true
	}
	return false
}

// emptyGuarded: at `in`, recv.IsEmpty() is known false for a receiver parameter of f's root function.
func emptyGuardedAt(in ssa.Instruction) bool {
	for _, g0 := range guardsAt(in) {
		for _, g := range expandGuard(g0) {
			call, ok := g.Cond.(*ssa.Call)
			if !ok || g.Truth {
				continue
			}
			cal := staticCallee(call)
			if cal == nil || cal.Name() != "IsEmpty" || len(call.Call.Args) != 1 {
				continue
			}
			// the argument is (a load of) the receiver
			a := stripLoad(call.Call.Args[0])
			if p, ok := a.(*ssa.Parameter); ok && len(in.Parent().Params) > 0 && p == in.Parent().Params[0] {
				return true
			}
			if al, ok := a.(*ssa.Alloc); ok {
				if st := uniqueStore(al); st != nil {
					if p, ok := st.(*ssa.Parameter); ok && len(in.Parent().Params) > 0 && p == in.Parent().Params[0] {
						return true
					}
				}
			}
		}
	}
	return false
}

// callSitesOf: static calls of f in the repository
func (p *Program) callSitesOf(f *ssa.Function) []ssa.CallInstruction {
	var out []ssa.CallInstruction
	for _, g := range p.Funcs {
		if !p.InRepo(g) {
			continue
		}
		eachCall(g, func(ci ssa.CallInstruction) {
			if staticCallee(ci) == f {
				out = append(out, ci)
			}
		})
	}
	return out
}

func runC14DivZero(c *Ctx) {
	n := 0
	for _, f := range centroidFamily(c) {
		fn := FuncName(f)
		k := 0
		eachInstr(f, func(in ssa.Instruction) {
			bo, ok := in.(*ssa.BinOp)
			if !ok || bo.Op != token.QUO || !isFloat(bo.Type()) {
				return
			}
			if kc, isConst := stripConv(bo.Y).(*ssa.Const); isConst {
				zero := false
				if f, ok := constantFloat(kc); ok && f == 0 {
					zero = true
				}
				if i, ok := constInt(kc); ok && i == 0 {
					zero = true
				}
				if zero {
					n++
					k++
					c.Bad(bo.Pos(), fn, fmt.Sprintf("division #%d by a constant zero", k), "the total that is divided by is the constant 0: the accumulation over the members is missing, so the centroid is 0/0")
				}
				return
			}
			// only divisions by a computed total: a loaded/phi accumulator or a converted count;
			// per-element geometry (segment lengths etc.) is not this rule's business
			if !isTotal(bo.Y) {
				return
			}
			n++
			k++
			construct := fmt.Sprintf("division #%d by %s", k, totalName(bo.Y))
			if !everAccumulated(bo.Y) {
				c.Bad(bo.Pos(), fn, construct, "the total that is divided by is never added to anywhere (its only value is its initial zero): the accumulation over the members is missing, so the centroid is 0/0")
				return
			}
			if nonZeroGuarded(bo, bo.Y) {
				c.OK(bo.Pos(), fn, construct, "the divisor is tested against zero on every path to the division")
				return
			}
			if emptyGuardedAt(bo) {
				c.OK(bo.Pos(), fn, construct, "the receiver is known non-empty (its own IsEmpty() is false)")
				return
			}
			root := rootFunc(f)
			// a closure: the guard may be in the enclosing function at the point where the closure is made
			if root != f {
				okAll := false
				eachInstr(root, func(in2 ssa.Instruction) {
					if mc, ok := in2.(*ssa.MakeClosure); ok && mc.Fn == ssa.Value(f) {
						if emptyGuardedAt(mc) {
							okAll = true
						}
					}
				})
				if okAll {
					c.OK(bo.Pos(), fn, construct, "the enclosing method has established that the receiver is non-empty")
					return
				}
			}
			if !ast_IsExported(root.Name()) {
				if nsites, all := callersEstablishNonEmpty(c.P, root, 0); all {
					c.OK(bo.Pos(), fn, construct, fmt.Sprintf("unexported helper: all %d call sites (through unexported helpers) are under the calling method's !IsEmpty() of its receiver", nsites))
					return
				}
			}
			c.Bad(bo.Pos(), fn, construct, "the total can be zero here (e.g. a collection whose members are all empty): neither a test of the divisor against 0 nor the receiver's own IsEmpty() dominates the division — the centroid of an empty geometry must be the empty point")
		})
	}
	if n < 3 {
		c.Errorf("only %d divisions by a total found in the centroid routines, expected >= 3", n)
	}
}

// callersEstablishNonEmpty: every static call of the unexported function f is
// dominated by the calling method's own !IsEmpty(), or sits in another
// unexported helper of which the same holds.
func callersEstablishNonEmpty(p *Program, f *ssa.Function, d int) (int, bool) {
	if d > 3 {
		return 0, false
	}
	sites := p.callSitesOf(f)
	if len(sites) == 0 {
		return 0, false
	}
	n := 0
	for _, s := range sites {
		if emptyGuardedAt(s) {
			n++
			continue
		}
		g := rootFunc(s.Parent())
		if ast_IsExported(g.Name()) || g == f {
			return 0, false
		}
		k, ok := callersEstablishNonEmpty(p, g, d+1)
		if !ok {
			return 0, false
		}
		n += k
	}
	return n, true
}

func ast_IsExported(name string) bool { return name != "" && name[0] >= 'A' && name[0] <= 'Z' }

func totalName(v ssa.Value) string {
	v = stripConv(v)
	if u, ok := v.(*ssa.UnOp); ok && u.Op == token.MUL {
		if n := u.X.Name(); n != "" {
			if al, ok := u.X.(*ssa.Alloc); ok && al.Comment != "" {
				return al.Comment
			}
			if fv, ok := u.X.(*ssa.FreeVar); ok {
				return fv.Name()
			}
		}
	}
	if p, ok := v.(*ssa.Phi); ok && p.Comment != "" {
		return p.Comment
	}
	return "a computed total"
}

// isTotal: v is an accumulator (a phi or a load of a local/captured cell that is
// added to somewhere) or the conversion of an integer count
func isTotal(v ssa.Value) bool {
	if cv, ok := v.(*ssa.Convert); ok {
		if bt, ok := cv.X.Type().Underlying().(*types.Basic); ok && bt.Info()&types.IsInteger != 0 {
			return true
		}
	}
	v = stripConv(v)
	switch x := v.(type) {
	case *ssa.Phi:
		return true
	case *ssa.UnOp:
		if x.Op != token.MUL {
			return false
		}
		switch x.X.(type) {
		case *ssa.Alloc, *ssa.FreeVar:
			return true
		}
	case *ssa.Extract:
		return true // a total returned by a summing helper
	}
	return false
}

func measureCallsIn(v ssa.Value, d int, out *[]*ssa.Call) {
	if d > 5 || v == nil {
		return
	}
	switch x := v.(type) {
	case *ssa.Call:
		if cal := staticCallee(x); cal != nil {
			switch cal.Name() {
			case "Length", "Area", "SignedArea":
				if cal.Signature.Recv() != nil {
					*out = append(*out, x)
					return
				}
			}
			if cal.Name() == "Abs" {
				for _, a := range x.Call.Args {
					measureCallsIn(a, d+1, out)
				}
			}
		}
	case *ssa.BinOp:
		measureCallsIn(x.X, d+1, out)
		measureCallsIn(x.Y, d+1, out)
	case *ssa.Convert:
		measureCallsIn(x.X, d+1, out)
	case *ssa.UnOp:
		if x.Op == token.SUB {
			measureCallsIn(x.X, d+1, out)
		}
	}
}

// sameElem: the two values denote the same member of a geometry
func sameElem(a, b ssa.Value, d int) bool {
	if a == b || sameValue(a, b) {
		return true
	}
	if d > 6 {
		return false
	}
	ca, ok1 := a.(*ssa.Call)
	cb, ok2 := b.(*ssa.Call)
	if ok1 && ok2 {
		fa, fb := staticCallee(ca), staticCallee(cb)
		if fa == nil || fa != fb || len(ca.Call.Args) != len(cb.Call.Args) {
			return false
		}
		switch {
		case strings.HasSuffix(fa.Name(), "N"), strings.HasPrefix(fa.Name(), "MustAs"), fa.Name() == "ExteriorRing", fa.Name() == "AsGeometry":
		default:
			return false
		}
		for i := range ca.Call.Args {
			if !sameElem(ca.Call.Args[i], cb.Call.Args[i], d+1) {
				return false
			}
		}
		return true
	}
	la, ok1 := a.(*ssa.UnOp)
	lb, ok2 := b.(*ssa.UnOp)
	if ok1 && ok2 && la.Op == token.MUL && lb.Op == token.MUL {
		return la.X == lb.X || sameAddr(la.X, lb.X, 0)
	}
	return false
}

func runC14Weight(c *Ctx) {
	n := 0
	for _, f := range centroidFamily(c) {
		fn := FuncName(f)
		k := 0
		eachInstr(f, func(in ssa.Instruction) {
			call, ok := in.(*ssa.Call)
			if !ok || calleeName(call) != "geom.(XY).Scale" || len(call.Call.Args) != 2 {
				return
			}
			// the scaled vector: (X.Centroid()).XY() #0
			ex, ok := call.Call.Args[0].(*ssa.Extract)
			if !ok {
				return
			}
			xy, ok := ex.Tuple.(*ssa.Call)
			if !ok || len(xy.Call.Args) != 1 {
				return
			}
			cen, ok := xy.Call.Args[0].(*ssa.Call)
			if !ok {
				return
			}
			cc := staticCallee(cen)
			if cc == nil || cc.Name() != "Centroid" || len(cen.Call.Args) != 1 {
				return
			}
			elem := cen.Call.Args[0]
			var ms []*ssa.Call
			measureCallsIn(call.Call.Args[1], 0, &ms)
			if len(ms) == 0 {
				return // two-pass form (weights from a table): C14.pairing's
			}
			n++
			k++
			bad := ""
			for _, mcall := range ms {
				if len(mcall.Call.Args) < 1 || !sameElem(mcall.Call.Args[0], elem, 0) {
					bad = fmt.Sprintf("the weight at %s is %s of a different object than the one whose Centroid() it scales", c.P.Pos(mcall.Pos()), staticCallee(mcall).Name())
				}
			}
			c.Check(bad == "", call.Pos(), fn, fmt.Sprintf("weighted term #%d", k), "the weight is the measure of the element whose centroid is scaled", bad+": the parts are no longer weighted by their own length/area")
		})
	}
	if n < 1 {
		c.Errorf("only %d weighted centroid terms found, expected >= 1", n)
	}
}

// ---------------------------------------------------------------------------
// C08.bounds: reads of the raw input are length-checked
// ---------------------------------------------------------------------------

func init() {
	register(&Rule{
		ID:    "C08.bounds",
		Props: []string{"C08", "C04"},
		Doc:   "no unchecked read of the raw input: in the methods of the WKB and TWKB parsers, every single-byte index of the input slice, every slice of it with a constant bound, and every fixed-width decode (binary.ByteOrder.UintNN) of it is dominated by a comparison of the input's length that proves the bytes are there (for constants: len >= the bytes needed, derived from the branch taken; for a computed index or upper bound: a dominating comparison between that length and the index/count), with no advance of the input in between. A count checked earlier for the FIRST element says nothing about the input left when a later element is read",
		Floor: 3,
		Run:   runC08Bounds,
	})
}

var inputFields = map[string]string{"wkbParser": "body", "twkbParser": "twkb"}

// inputLoad: v is a load of the parser's input field; returns the FieldAddr
func inputLoad(v ssa.Value) *ssa.FieldAddr {
	u, ok := v.(*ssa.UnOp)
	if !ok || u.Op != token.MUL {
		return nil
	}
	fa, ok := u.X.(*ssa.FieldAddr)
	if !ok {
		return nil
	}
	tn, fld := fieldOfAddr(fa)
	if want, ok := inputFields[tn]; ok && fld == want {
		return fa
	}
	return nil
}

func isLenOfInput(v ssa.Value, fa *ssa.FieldAddr) bool {
	v = stripConv(v)
	call, ok := v.(*ssa.Call)
	if !ok {
		return false
	}
	b, ok := call.Call.Value.(*ssa.Builtin)
	if !ok || b.Name() != "len" {
		return false
	}
	g := inputLoad(call.Call.Args[0])
	return g != nil && (g == fa || (g.Field == fa.Field && (g.X == fa.X || sameValue(g.X, fa.X))))
}

// lenLowerBound: the largest L such that a guard holding at `in` proves len(input) >= L (0 when none);
// related: some guard compares the length with the given non-constant value.
func lenFacts(in ssa.Instruction, fa *ssa.FieldAddr, related ssa.Value) (int64, bool, []*ssa.BasicBlock) {
	_, strictIndex := in.(*ssa.IndexAddr) // a single element read needs len > index
	var lb int64
	rel := false
	var at []*ssa.BasicBlock
	b := in.Block()
	for d := b.Idom(); d != nil; d = d.Idom() {
		n := len(d.Instrs)
		if n == 0 {
			continue
		}
		ifi, ok := d.Instrs[n-1].(*ssa.If)
		if !ok {
			continue
		}
		for k, s := range d.Succs {
			if !(len(s.Preds) == 1 && (s == b || s.Dominates(b))) || d.Succs[0] == d.Succs[1] {
				continue
			}
			for _, g := range expandGuard(Guard{ifi.Cond, k == 0}) {
				bo, ok := g.Cond.(*ssa.BinOp)
				if !ok {
					continue
				}
				op := bo.Op
				var other ssa.Value
				switch {
				case isLenOfInput(bo.X, fa):
					other = bo.Y
				case isLenOfInput(bo.Y, fa):
					other = bo.X
					switch op {
					case token.LSS:
						op = token.GTR
					case token.GTR:
						op = token.LSS
					case token.LEQ:
						op = token.GEQ
					case token.GEQ:
						op = token.LEQ
					}
				default:
					continue
				}
				if !g.Truth {
					switch op {
					case token.LSS:
						op = token.GEQ
					case token.GTR:
						op = token.LEQ
					case token.LEQ:
						op = token.GTR
					case token.GEQ:
						op = token.LSS
					case token.EQL:
						op = token.NEQ
					case token.NEQ:
						op = token.EQL
					}
				}
				// now: len(input) op other holds
				if kc, ok := constInt(stripConv(other)); ok {
					var l int64
					switch op {
					case token.GEQ:
						l = kc
					case token.GTR:
						l = kc + 1
					case token.NEQ:
						if kc == 0 {
							l = 1
						}
					case token.EQL:
						l = kc
					}
					if l > lb {
						lb = l
						at = append(at, s)
					}
					continue
				}
				if related != nil && (op == token.GEQ || op == token.GTR) {
					switch {
					case !isIndexLike(related):
						rel = true // a computed byte count under `len(input) >= computed`
					case op == token.GTR && sameQuantity(other, related):
						rel = true // len(input) > i
					case op == token.GEQ && isValuePlusPositive(other, related):
						rel = true // len(input) >= i + k, k >= 1
					case strictIndex:
						// len(input) >= i only: input[i] is one past the end
					case mentions(other, related, 0):
						rel = true
					}
					if rel {
						at = append(at, s)
					}
				}
			}
		}
	}
	return lb, rel, at
}

// isIndexLike: v is used as a single index (then the guard must mention it); a
// computed byte count (8*len(floats)) is accepted under any dominating
// `len(input) >= computed` test — the arithmetic relating the two is not decided here
func isIndexLike(v ssa.Value) bool {
	switch x := stripConv(v).(type) {
	case *ssa.BinOp:
		return x.Op != token.MUL
	}
	return true
}

// mentions: expression e contains value v (structurally)
func mentions(e, v ssa.Value, d int) bool {
	if d > 6 || e == nil {
		return false
	}
	if sameQuantity(e, v) {
		return true
	}
	switch x := e.(type) {
	case *ssa.BinOp:
		return mentions(x.X, v, d+1) || mentions(x.Y, v, d+1)
	case *ssa.Convert:
		return mentions(x.X, v, d+1)
	case *ssa.Call:
		for _, a := range x.Call.Args {
			if mentions(a, v, d+1) {
				return true
			}
		}
	}
	// the other way round: v is computed from e's leaves (8*len(floats) vs n*8*dim) — compare leaves
	return false
}

// advancedBetween: the input field is stored to, or the parser is handed to a
// call, somewhere after the guard edge (entering block s) and before the use.
func advancedBetween(s *ssa.BasicBlock, use ssa.Instruction, fa *ssa.FieldAddr) bool {
	f := use.Parent()
	reachFromS := map[*ssa.BasicBlock]bool{}
	var walk func(b *ssa.BasicBlock)
	walk = func(b *ssa.BasicBlock) {
		if reachFromS[b] {
			return
		}
		reachFromS[b] = true
		for _, t := range b.Succs {
			walk(t)
		}
	}
	walk(s)
	reachesUse := map[*ssa.BasicBlock]bool{}
	var back func(b *ssa.BasicBlock)
	back = func(b *ssa.BasicBlock) {
		if reachesUse[b] {
			return
		}
		reachesUse[b] = true
		for _, p := range b.Preds {
			back(p)
		}
	}
	back(use.Block())
	recv := fa.X
	for _, b := range f.Blocks {
		if !reachFromS[b] || !reachesUse[b] {
			continue
		}
		for _, in := range b.Instrs {
			if b == use.Block() && in == use {
				break
			}
			kill := false
			switch x := in.(type) {
			case *ssa.Store:
				if a, ok := x.Addr.(*ssa.FieldAddr); ok && a.Field == fa.Field && (a.X == recv || sameValue(a.X, recv)) {
					kill = true
				}
			case ssa.CallInstruction:
				for _, a := range x.Common().Args {
					if a == recv || sameValue(a, recv) {
						kill = true
					}
				}
			}
			if !kill {
				continue
			}
			// a kill in the use's own block only counts before the use (handled by the break);
			// in another block it counts when that block is strictly between
			if b == use.Block() {
				// is the use block inside a loop that reaches itself? then instructions after the use would count too,
				// but those were cut by the break; accept
				return true
			}
			return true
		}
	}
	return false
}

func runC08Bounds(c *Ctx) {
	n := 0
	var fs []*ssa.Function
	for _, f := range c.P.Funcs {
		if pkgOf(f) != "geom" || len(f.Blocks) == 0 {
			continue
		}
		fs = append(fs, f)
	}
	sort.Slice(fs, func(i, j int) bool {
		return FuncName(fs[i]) < FuncName(fs[j]) || (FuncName(fs[i]) == FuncName(fs[j]) && fs[i].Pos() < fs[j].Pos())
	})
	for _, f := range fs {
		fn := FuncName(f)
		k := 0
		eachInstr(f, func(in ssa.Instruction) {
			var fa *ssa.FieldAddr
			need := int64(-1) // bytes that must be present; -1: computed
			var related ssa.Value
			what := ""
			switch x := in.(type) {
			case *ssa.IndexAddr:
				fa = inputLoad(x.X)
				if fa == nil {
					return
				}
				if kc, ok := constInt(x.Index); ok {
					need = kc + 1
					what = fmt.Sprintf("byte read input[%d]", kc)
				} else {
					related = x.Index
					what = "byte read input[i]"
				}
			case *ssa.Slice:
				fa = inputLoad(x.X)
				if fa == nil {
					return
				}
				var hi, lo int64 = -1, 0
				if x.High != nil {
					if kc, ok := constInt(x.High); ok {
						hi = kc
					} else {
						related = x.High
					}
				}
				if x.Low != nil {
					if kc, ok := constInt(x.Low); ok {
						lo = kc
					} else if x.High == nil {
						return // input[pos:] with a running position: the parser's own invariant pos <= len
					}
				}
				switch {
				case related != nil:
					what = "slice input[:n]"
				case hi >= 0:
					need = hi
					what = fmt.Sprintf("slice input[%d:%d]", lo, hi)
				case lo > 0:
					need = lo
					what = fmt.Sprintf("slice input[%d:]", lo)
				default:
					return
				}
			case *ssa.Call:
				if x.Call.IsInvoke() || len(x.Call.Args) < 1 {
					// binary.BigEndian.Uint32 is a static method call on a value receiver
				}
				cal := staticCallee(x)
				if cal == nil || cal.Pkg == nil || cal.Pkg.Pkg.Path() != "encoding/binary" {
					return
				}
				var w int64
				switch cal.Name() {
				case "Uint16":
					w = 2
				case "Uint32":
					w = 4
				case "Uint64":
					w = 8
				default:
					return
				}
				for _, a := range x.Call.Args {
					if g := inputLoad(a); g != nil {
						fa = g
					}
				}
				if fa == nil {
					return
				}
				need = w
				what = fmt.Sprintf("fixed-width decode of %d bytes", w)
			default:
				return
			}
			n++
			k++
			construct := fmt.Sprintf("%s #%d", what, k)
			lb, rel, at := lenFacts(in, fa, related)
			ok := false
			switch {
			case need >= 0:
				ok = lb >= need
			default:
				ok = rel
			}
			if ok {
				for _, s := range at {
					if advancedBetween(s, in, fa) {
						ok = false
					}
				}
				if !ok {
					c.Bad(in.Pos(), fn, construct, "the length check that covers this read is followed by an advance of the input (a store to it or a call on the parser) before the read: the check no longer describes the input being read")
					return
				}
				c.OK(in.Pos(), fn, construct, "dominated by a length test that proves the bytes are present")
				return
			}
			// a helper split off an existing routine: the check may be in its callers
			if isNewHelper(f) && len(f.Params) > 0 && fa.X == ssa.Value(f.Params[0]) {
				sites := c.P.callSitesOf(f)
				all := len(sites) > 0
				for _, cs := range sites {
					caller := cs.Parent()
					var cfa *ssa.FieldAddr
					eachInstr(caller, func(in2 ssa.Instruction) {
						if g, ok := in2.(*ssa.FieldAddr); ok && g.Field == fa.Field && (g.X == cs.Common().Args[0] || sameValue(g.X, cs.Common().Args[0])) {
							if tn, _ := fieldOfAddr(g); inputFields[tn] != "" && cfa == nil {
								cfa = g
							}
						}
					})
					if cfa == nil {
						all = false
						continue
					}
					var rel2 ssa.Value
					if need < 0 {
						rel2 = cs.Value() // any value that is not index-like: a computed count
						if rel2 == nil {
							all = false
							continue
						}
					}
					lb2, relOK, at2 := lenFacts(cs, cfa, nil)
					if need < 0 {
						// a dominating `len(input) >= computed` in the caller
						relOK = false
						for _, g0 := range callerLenGuards(cs, cfa) {
							if g0 {
								relOK = true
							}
						}
					}
					good := (need >= 0 && lb2 >= need) || (need < 0 && relOK)
					for _, sblk := range at2 {
						if good && advancedBetween(sblk, cs, cfa) {
							good = false
						}
					}
					if !good {
						all = false
					}
				}
				if all {
					c.OK(in.Pos(), fn, construct, fmt.Sprintf("new helper: every one of its %d call sites is dominated by the length test", len(sites)))
					return
				}
			}
			if need >= 0 {
				c.Bad(in.Pos(), fn, construct, fmt.Sprintf("needs %d byte(s) of input but the dominating length tests prove only %d: truncated or hostile input makes this an index-out-of-range panic instead of an error", need, lb))
			} else {
				c.Bad(in.Pos(), fn, construct, "no dominating comparison between the input's length and this computed bound: truncated or hostile input makes this an out-of-range panic instead of an error")
			}
		})
	}
	if n < 3 {
		c.Errorf("only %d raw input reads found in the WKB/TWKB parsers, expected >= 3", n)
	}
}

// ---------------------------------------------------------------------------
// C04.bo / C04.prealloc
// ---------------------------------------------------------------------------

func init() {
	register(&Rule{
		ID:    "C04.bo",
		Props: []string{"C04"},
		Doc:   "every WKB element carries its own byte order: the byte-order field of a wkbParser is only ever set from that parser's own byte-order byte — no store to it (including the fields of a composite literal) takes its value from the byte-order field of another parser (a child read with the parent's order mis-decodes mixed-endian input, which the format allows per element)",
		Floor: 1,
		Run:   runC04Bo,
	})
	register(&Rule{
		ID:    "C04.prealloc",
		Props: []string{"C04", "C08"},
		Doc:   "the count sanity checks of the WKB parser reject only what cannot be decoded: where an element count n is compared with the remaining input as n*K, K is a constant no larger than the smallest possible encoding of one element (ring: 4-byte count; child geometry: 5-byte header; here per parser routine from a table) or, for coordinate sequences, 8 bytes x the dimension — a larger per-element size rejects valid encodings (degenerate rings under NoValidate, empty members)",
		Floor: 2,
		Run:   runC04Prealloc,
	})
}

func runC04Bo(c *Ctx) {
	n := 0
	for _, f := range c.P.Funcs {
		if pkgOf(f) != "geom" {
			continue
		}
		fn := FuncName(f)
		k := 0
		eachInstr(f, func(in ssa.Instruction) {
			st, ok := in.(*ssa.Store)
			if !ok {
				return
			}
			fa, ok := st.Addr.(*ssa.FieldAddr)
			if !ok {
				return
			}
			tn, fld := fieldOfAddr(fa)
			if tn != "wkbParser" || fld != "bo" {
				return
			}
			n++
			k++
			bad := readsBoField(st.Val, 0)
			c.Check(!bad, st.Pos(), fn, fmt.Sprintf("store to the byte-order field #%d", k), "the value does not come from another parser's byte order", "the byte order of this parser is copied from another parser's byte-order field: an element is then decoded with the byte order of its parent instead of its own byte-order byte")
		})
	}
	if n < 1 {
		c.Errorf("no store to wkbParser.bo found")
	}
}

func readsBoField(v ssa.Value, d int) bool {
	if d > 6 || v == nil {
		return false
	}
	switch x := v.(type) {
	case *ssa.UnOp:
		if x.Op == token.MUL {
			if fa, ok := x.X.(*ssa.FieldAddr); ok {
				tn, fld := fieldOfAddr(fa)
				if tn == "wkbParser" && fld == "bo" {
					return true
				}
			}
		}
		return readsBoField(x.X, d+1)
	case *ssa.Field:
		tn, fld := fieldOfField(x)
		if tn == "wkbParser" && fld == "bo" {
			return true
		}
	case *ssa.Phi:
		for _, e := range x.Edges {
			if readsBoField(e, d+1) {
				return true
			}
		}
	case *ssa.MakeInterface:
		return readsBoField(x.X, d+1)
	case *ssa.ChangeType:
		return readsBoField(x.X, d+1)
	case *ssa.Convert:
		return readsBoField(x.X, d+1)
	}
	return false
}

// smallest encodings of one element, by the routine that reads the count
var minElemSize = map[string]int64{
	"geom.(*wkbParser).parsePolygon":            4, // a ring: its 4-byte point count
	"geom.(*wkbParser).parseMultiPoint":         5, // a child: byte order + type (its body may add more; 5 is what every child has)
	"geom.(*wkbParser).parseMultiLineString":    5,
	"geom.(*wkbParser).parseMultiPolygon":       5,
	"geom.(*wkbParser).parseGeometryCollection": 5,
}

func runC04Prealloc(c *Ctx) {
	n := 0
	for _, f := range c.P.Funcs {
		if pkgOf(f) != "geom" || f.Signature.Recv() == nil || namedName(f.Signature.Recv().Type()) != "wkbParser" {
			continue
		}
		fn := FuncName(f)
		k := 0
		eachInstr(f, func(in ssa.Instruction) {
			bo, ok := in.(*ssa.BinOp)
			if !ok {
				return
			}
			switch bo.Op {
			case token.LSS, token.GTR, token.LEQ, token.GEQ:
			default:
				return
			}
			var other ssa.Value
			isLen := func(v ssa.Value) bool {
				call, ok := stripConv(v).(*ssa.Call)
				if !ok {
					return false
				}
				b, ok := call.Call.Value.(*ssa.Builtin)
				return ok && b.Name() == "len" && inputLoad(call.Call.Args[0]) != nil
			}
			switch {
			case isLen(bo.X):
				other = bo.Y
			case isLen(bo.Y):
				other = bo.X
			default:
				return
			}
			other = stripConv(other)
			if _, ok := other.(*ssa.Const); ok {
				return // a fixed-width read (C08.bounds)
			}
			mul, ok := other.(*ssa.BinOp)
			if !ok || mul.Op != token.MUL {
				return
			}
			n++
			k++
			construct := fmt.Sprintf("count sanity check #%d", k)
			limit, known := minElemSize[fn]
			if !known {
				limit = 4
			}
			kx, okx := constInt(stripConv(mul.X))
			ky, oky := constInt(stripConv(mul.Y))
			switch {
			case okx || oky:
				kk := kx
				if oky {
					kk = ky
				}
				c.Check(kk <= limit && kk > 0, bo.Pos(), fn, construct, fmt.Sprintf("%d bytes per element, not more than the smallest element (%d)", kk, limit), fmt.Sprintf("counts are rejected unless the input holds %d bytes per element, but an element can be as small as %d bytes: valid encodings (short or empty elements, kept under NoValidate) are refused as truncated", kk, limit))
			case isNewHelper(f) && (paramOf(f, mul.X) >= 0 || paramOf(f, mul.Y) >= 0):
				// the per-element size is an argument of a helper split off the parsers: judge each call
				var pis []int
				for _, v := range []ssa.Value{mul.X, mul.Y} {
					if pi := paramOf(f, v); pi >= 0 {
						pis = append(pis, pi)
					}
				}
				sites := c.P.callSitesOf(f)
				n += len(sites) - 1
				bad := ""
				for _, cs := range sites {
					args := cs.Common().Args
					lim, known := minElemSize[FuncName(cs.Parent())]
					if !known {
						lim = 4
					}
					okSite := false
					for _, pi := range pis {
						if pi >= len(args) {
							continue
						}
						a := stripConv(args[pi])
						if kk, ok := constInt(a); ok {
							if kk > lim || kk <= 0 {
								bad = fmt.Sprintf("%d bytes per element passed at %s, but an element there can be as small as %d bytes", kk, c.P.Pos(cs.Pos()), lim)
							}
							okSite = true
						} else if isEightTimesDimension(a) {
							okSite = true
						}
					}
					if !okSite {
						bad = "a computed per-element size passed at " + c.P.Pos(cs.Pos())
					}
				}
				c.Check(bad == "" && len(sites) > 0, bo.Pos(), fn, construct, fmt.Sprintf("helper: all %d call sites pass a size not above the smallest element", len(sites)), bad+": valid encodings (short or empty elements, kept under NoValidate) are refused as truncated")
			case isEightTimesDimension(mul.X) || isEightTimesDimension(mul.Y):
				c.OK(bo.Pos(), fn, construct, "8 bytes x Dimension() per point: the exact size of a point")
			default:
				c.Bad(bo.Pos(), fn, construct, fmt.Sprintf("the per-element size is a computed value that is not 8 x Dimension(): it cannot be shown to be at most the smallest element (%d bytes), so valid encodings may be refused as truncated", limit))
			}
		})
	}
	if n < 5 {
		c.Errorf("only %d count sanity checks found in the WKB parser, expected >= 5", n)
	}
}

func isEightTimesDimension(v ssa.Value) bool {
	v = stripConv(v)
	bo, ok := v.(*ssa.BinOp)
	if !ok || bo.Op != token.MUL {
		return false
	}
	isDim := func(v ssa.Value) bool {
		call, ok := stripConv(v).(*ssa.Call)
		return ok && calleeName(call) == "geom.(CoordinatesType).Dimension"
	}
	if k, ok := constInt(stripConv(bo.X)); ok && k == 8 && isDim(bo.Y) {
		return true
	}
	if k, ok := constInt(stripConv(bo.Y)); ok && k == 8 && isDim(bo.X) {
		return true
	}
	return false
}

// ---------------------------------------------------------------------------
// C05.lexcfg / C05.numeric
// ---------------------------------------------------------------------------

func init() {
	register(&Rule{
		ID:    "C05.lexcfg",
		Props: []string{"C05"},
		Doc:   "configuration of the WKT tokenizer (text/scanner): every store to Scanner.Mode in geom has the bits ScanInts|ScanFloats|ScanIdents set and no character/string/comment scanning; every store to Scanner.Whitespace is a constant that contains space, tab, newline and carriage return (the scanner's default, GoWhitespace); IsIdentRune is not replaced — so numbers, keywords and all common white space, CRLF line ends included, are tokenised as the property states",
		Floor: 1,
		Run:   runC05LexCfg,
	})
	register(&Rule{
		ID:    "C05.numeric",
		Props: []string{"C05"},
		Doc:   "which numerals WKT accepts is decided by strconv.ParseFloat alone: in parser.nextSignedNumericLiteral every branch that leads to an error return tests only an error value against nil (the lexer's, ParseFloat's) or math.IsNaN/IsInf of the parsed number — no extra test on the token's text (length, character sets, prefixes), which is how exponent forms, upper-case E, leading '+' or '.' get rejected",
		Floor: 3,
		Run:   runC05Numeric,
	})
}

func runC05LexCfg(c *Ctx) {
	n := 0
	for _, f := range c.P.Funcs {
		if pkgOf(f) != "geom" {
			continue
		}
		fn := FuncName(f)
		eachInstr(f, func(in ssa.Instruction) {
			st, ok := in.(*ssa.Store)
			if !ok {
				return
			}
			fa, ok := st.Addr.(*ssa.FieldAddr)
			if !ok {
				return
			}
			nt, ok := deref(fa.X.Type()).(*types.Named)
			if !ok || nt.Obj().Pkg() == nil || nt.Obj().Pkg().Path() != "text/scanner" || nt.Obj().Name() != "Scanner" {
				return
			}
			fld := nt.Underlying().(*types.Struct).Field(fa.Field).Name()
			switch fld {
			case "Mode":
				n++
				k, ok := constInt(stripConv(st.Val))
				const want = 1<<2 | 1<<3 | 1<<4 // ScanIdents=4, ScanInts=8, ScanFloats=16 (text/scanner: 1 << -Ident etc.)
				_ = want
				// text/scanner: ScanIdents = 1 << -Ident (Ident = -2) = 4; ScanInts = 1<<3 = 8; ScanFloats = 1<<4 = 16; ScanChars=32; ScanStrings=64; ScanRawStrings=128; ScanComments=256; SkipComments=512
				c.Check(ok && k&(4|8|16) == (4|8|16) && k&(32|64|128|256|512) == 0, st.Pos(), fn, "Scanner.Mode", "ScanInts|ScanFloats|ScanIdents and nothing else that changes tokens", fmt.Sprintf("the scanner mode %d is not ScanInts|ScanFloats|ScanIdents (28) without char/string/comment scanning: numbers or keywords are tokenised differently", k))
			case "Whitespace":
				n++
				k, ok := constInt(stripConv(st.Val))
				need := int64(1<<' ' | 1<<'\t' | 1<<'\n' | 1<<'\r')
				c.Check(ok && k&need == need, st.Pos(), fn, "Scanner.Whitespace", "contains space, tab, newline and carriage return", "the white space set of the tokenizer lacks one of space, tab, newline, carriage return: WKT separated by that character (e.g. CRLF line ends) is rejected")
			case "IsIdentRune":
				n++
				c.Bad(st.Pos(), fn, "Scanner.IsIdentRune", "the identifier predicate of the tokenizer is replaced: which keywords and numerals form one token is no longer the scanner's documented default, and is not decided here")
			}
		})
	}
	if n < 1 {
		c.Errorf("no scanner configuration found in geom")
	}
}

func runC05Numeric(c *Ctx) {
	f0 := c.P.Func("geom.(*parser).nextSignedNumericLiteral")
	if f0 == nil {
		c.Errorf("anchor geom.(*parser).nextSignedNumericLiteral does not resolve")
		return
	}
	// the routine and the helpers split off it
	fs := []*ssa.Function{f0}
	seen := map[*ssa.Function]bool{f0: true}
	for i := 0; i < len(fs); i++ {
		eachCall(fs[i], func(ci ssa.CallInstruction) {
			if cal := staticCallee(ci); cal != nil && isNewHelper(cal) && !seen[cal] && len(cal.Blocks) > 0 {
				seen[cal] = true
				fs = append(fs, cal)
			}
		})
	}
	n := 0
	hasPF := false
	for _, f := range fs {
		eachCall(f, func(ci ssa.CallInstruction) {
			if cal := staticCallee(ci); cal != nil && cal.Pkg != nil && cal.Pkg.Pkg.Path() == "strconv" && cal.Name() == "ParseFloat" {
				hasPF = true
			}
		})
	}
	c.Check(hasPF, f0.Pos(), FuncName(f0), "conversion", "strconv.ParseFloat converts the token", "the numeral is no longer converted by strconv.ParseFloat: the accepted numeral syntax is not decided here")
	// … and the number handed back is ParseFloat's own result (negated for a leading minus): a second, hand-written
	// conversion path would have to round exactly as ParseFloat does for every numeral
	{
		var fromPF func(v ssa.Value, d int, seen map[ssa.Value]bool) bool
		fromPF = func(v ssa.Value, d int, seen map[ssa.Value]bool) bool {
			if d > 8 {
				return false
			}
			if seen[v] {
				return true
			}
			seen[v] = true
			switch x := v.(type) {
			case *ssa.Extract:
				if call, ok := x.Tuple.(*ssa.Call); ok && x.Index == 0 {
					if cal := staticCallee(call); cal != nil {
						if cal.Pkg != nil && cal.Pkg.Pkg.Path() == "strconv" && cal.Name() == "ParseFloat" {
							return true
						}
						if isNewHelper(cal) && len(cal.Blocks) > 0 {
							for _, r := range returnsOf(cal) {
								if len(r.Results) > 0 && isFloat(r.Results[0].Type()) && !isZeroFloatConst(r.Results[0]) && !fromPF(r.Results[0], d+1, seen) {
									return false
								}
							}
							return true
						}
					}
				}
			case *ssa.UnOp:
				if x.Op == token.SUB {
					return fromPF(x.X, d+1, seen)
				}
				if x.Op == token.MUL {
					if al, ok := x.X.(*ssa.Alloc); ok {
						for _, r := range *al.Referrers() {
							if st, ok := r.(*ssa.Store); ok && st.Addr == ssa.Value(al) && !isZeroFloatConst(st.Val) && !fromPF(st.Val, d+1, seen) {
								return false
							}
						}
						return true
					}
				}
			case *ssa.BinOp:
				if x.Op == token.MUL {
					if _, isC := x.Y.(*ssa.Const); isC {
						return fromPF(x.X, d+1, seen)
					}
					if _, isC := x.X.(*ssa.Const); isC {
						return fromPF(x.Y, d+1, seen)
					}
				}
			case *ssa.Phi:
				for _, e := range x.Edges {
					if !isZeroFloatConst(e) && !fromPF(e, d+1, seen) {
						return false
					}
				}
				return true
			}
			return false
		}
		bad := ""
		for _, r := range returnsOf(f0) {
			if len(r.Results) != 2 || !isNilConst(r.Results[1]) {
				continue
			}
			if !fromPF(r.Results[0], 0, map[ssa.Value]bool{}) {
				bad = c.P.Pos(r.Pos())
			}
		}
		c.Check(bad == "", f0.Pos(), FuncName(f0), "value of the numeral", "every number returned is strconv.ParseFloat's result (negated for a leading minus)", "the number returned at "+bad+" does not come from strconv.ParseFloat on every path: a hand-written conversion (mantissa / power of ten) is only correctly rounded for short numerals, so full-precision ordinates come back one unit in the last place off")
	}
	for _, f := range fs {
		fn := FuncName(f)
		for _, b := range f.Blocks {
			ifi, ok := b.Instrs[len(b.Instrs)-1].(*ssa.If)
			if !ok {
				continue
			}
			for _, s := range b.Succs {
				r := returnAfter(s)
				if r == nil || len(r.Results) < 1 || !isErrorType(r.Results[len(r.Results)-1].Type()) || isNilConst(r.Results[len(r.Results)-1]) {
					continue
				}
				// this edge rejects the numeral
				n++
				okCond := false
				why := ""
				var judge func(cv ssa.Value, d int) (bool, string)
				judge = func(cv ssa.Value, d int) (bool, string) {
					switch x := cv.(type) {
					case *ssa.BinOp:
						if isErrorType(x.X.Type()) && isNilConst(x.Y) {
							return true, ""
						}
						return false, "a comparison of " + typeShort(x.X.Type()) + " values"
					case *ssa.Call:
						cal := staticCallee(x)
						if cal != nil && cal.Pkg != nil && cal.Pkg.Pkg.Path() == "math" && (cal.Name() == "IsNaN" || cal.Name() == "IsInf") {
							return true, ""
						}
						return false, "a call of " + calleeName(x)
					case *ssa.UnOp:
						if x.Op == token.NOT && d < 4 {
							return judge(x.X, d+1)
						}
					case *ssa.Phi:
						// a || / && of admissible tests
						if d < 4 {
							for _, e := range x.Edges {
								if _, isC := e.(*ssa.Const); isC {
									continue
								}
								if ok, w := judge(e, d+1); !ok {
									return false, w
								}
							}
							return true, ""
						}
					}
					return false, "a condition of another form"
				}
				okCond, why = judge(ifi.Cond, 0)
				c.Check(okCond, condPos(ifi), fn, fmt.Sprintf("rejection #%d", n), "rejects on an error value or on NaN/Inf of the parsed number", "a numeral is rejected on "+why+": beyond ParseFloat's own verdict and NaN/Inf, the token's text decides — exponent forms, an upper-case E or other spellings ParseFloat accepts can be refused")
			}
		}
	}
	if n < 3 {
		c.Errorf("only %d rejecting branches found in nextSignedNumericLiteral, expected >= 3", n)
	}
}

// ---------------------------------------------------------------------------
// C06.foreign
// ---------------------------------------------------------------------------

func init() {
	register(&Rule{
		ID:    "C06.foreign",
		Props: []string{"C06"},
		Doc:   "foreign members of a Feature survive: in GeoJSONFeature.UnmarshalJSON the member names that are NOT collected into ForeignMembers (string constants compared with the key of the loop over the top-level object, or deleted from it) are exactly the names the function itself decodes into the struct's own fields (constant keys looked up in the top-level object): a name that is skipped but decoded nowhere (e.g. \"bbox\") is silently dropped, a name that is decoded but not skipped is written twice",
		Floor: 1,
		Run:   runC06Foreign,
	})
}

func runC06Foreign(c *Ctx) {
	f := c.P.Func("geom.(*GeoJSONFeature).UnmarshalJSON")
	if f == nil {
		c.Errorf("anchor geom.(*GeoJSONFeature).UnmarshalJSON does not resolve")
		return
	}
	fn := FuncName(f)
	// the scan over the object's members runs for every object: no test of how many members it has stands in front of it
	for _, g := range withNewHelpers(f) {
		eachInstr(g, func(in ssa.Instruction) {
			rg, ok := in.(*ssa.Range)
			if !ok {
				return
			}
			if _, isMap := rg.X.Type().Underlying().(*types.Map); !isMap {
				return
			}
			for _, gd := range guardsAt(rg) {
				bo, ok := gd.Cond.(*ssa.BinOp)
				if !ok {
					continue
				}
				for _, pr := range [][2]ssa.Value{{bo.X, bo.Y}, {bo.Y, bo.X}} {
					lc, ok := stripConv(pr[0]).(*ssa.Call)
					if !ok {
						continue
					}
					b, isB := lc.Call.Value.(*ssa.Builtin)
					if !isB || b.Name() != "len" || !(lc.Call.Args[0] == rg.X || sameValue(lc.Call.Args[0], rg.X)) {
						continue
					}
					if k, isC := constInt(stripConv(pr[1])); isC && k >= 1 {
						c.Bad(rg.Pos(), FuncName(g), "scan of the object's members", fmt.Sprintf("the loop over the members of the object runs only under a test of the number of members (against %d): which members are present, not how many, decides whether one of them is foreign — an object without the optional members loses its foreign ones", k))
					}
				}
			}
		})
	}
	looked := map[string]bool{}
	skipped := map[string]bool{}
	var keyVals []ssa.Value
	var visit func(g *ssa.Function, d int)
	visit = func(g *ssa.Function, d int) {
		eachInstr(g, func(in ssa.Instruction) {
			switch x := in.(type) {
			case *ssa.Lookup:
				if _, isMap := x.X.Type().Underlying().(*types.Map); isMap {
					if s, ok := constString(x.Index); ok {
						looked[s] = true
					} else if par, isPar := x.Index.(*ssa.Parameter); isPar && isNewHelper(g) {
						// a lookup helper: the names are the constants it is called with
						if idx := paramIndex(g, par); idx >= 0 {
							for _, cs := range c.P.callSitesOf(g) {
								if idx < len(cs.Common().Args) {
									if s, ok := constString(cs.Common().Args[idx]); ok {
										looked[s] = true
									}
								}
							}
						}
					}
				}
			case *ssa.Next:
				if !x.IsString {
					keyVals = append(keyVals, x)
				}
			case *ssa.Call:
				if b, ok := x.Call.Value.(*ssa.Builtin); ok && b.Name() == "delete" && len(x.Call.Args) == 2 {
					if s, ok := constString(x.Call.Args[1]); ok {
						skipped[s] = true
					}
				}
				if cal := staticCallee(x); cal != nil && isNewHelper(cal) && d < 2 {
					visit(cal, d+1)
				}
			}
		})
	}
	visit(f, 0)
	// comparisons of the range key with constants (in the function and the helpers split off it)
	scan := []*ssa.Function{f}
	eachCall(f, func(ci ssa.CallInstruction) {
		if cal := staticCallee(ci); cal != nil && isNewHelper(cal) && len(cal.Blocks) > 0 {
			scan = append(scan, cal)
		}
	})
	for _, sf := range scan {
		eachInstr(sf, func(in ssa.Instruction) {
			bo, ok := in.(*ssa.BinOp)
			if !ok || (bo.Op != token.EQL && bo.Op != token.NEQ) {
				return
			}
			var s string
			var other ssa.Value
			if k, ok := constString(bo.X); ok {
				s, other = k, bo.Y
			} else if k, ok := constString(bo.Y); ok {
				s, other = k, bo.X
			} else {
				// a parameter of a helper split off f compared with the elements of a package-level
				// string table: every name in the table is kept out
				if sf != f {
					for _, pr := range [][2]ssa.Value{{bo.X, bo.Y}, {bo.Y, bo.X}} {
						if _, isPar := pr[0].(*ssa.Parameter); !isPar {
							continue
						}
						var gl *ssa.Global
						switch e := pr[1].(type) {
						case *ssa.Index:
							if ld, ok := e.X.(*ssa.UnOp); ok {
								gl, _ = ld.X.(*ssa.Global)
							}
						case *ssa.UnOp:
							if ia, ok := e.X.(*ssa.IndexAddr); ok {
								if ld, ok := ia.X.(*ssa.UnOp); ok {
									gl, _ = ld.X.(*ssa.Global)
								} else {
									gl, _ = ia.X.(*ssa.Global)
								}
							}
						}
						if gl != nil {
							if lst, ok := globalStringList(c.P, "geom", gl.Name()); ok {
								for _, nm := range lst {
									skipped[nm] = true
								}
							}
						}
					}
				}
				return
			}
			// other is the key extracted from a map iteration
			if ex, ok := other.(*ssa.Extract); ok && ex.Index == 1 {
				if _, ok := ex.Tuple.(*ssa.Next); ok {
					skipped[s] = true
				}
			}
		})
	}
	var ls, ss []string
	for k := range looked {
		ls = append(ls, k)
	}
	for k := range skipped {
		ss = append(ss, k)
	}
	sort.Strings(ls)
	sort.Strings(ss)
	if len(ls) == 0 || len(ss) == 0 {
		c.Undecided(f.Pos(), fn, "known member names", fmt.Sprintf("cannot find the member names decoded (%v) and the names kept out of ForeignMembers (%v) in the form this rule knows (constant map lookups; constants compared with the range key or deleted)", ls, ss))
		return
	}
	c.Check(strings.Join(ls, ",") == strings.Join(ss, ","), f.Pos(), fn, "known member names", fmt.Sprintf("decoded into fields and kept out of ForeignMembers: %v", ls), fmt.Sprintf("the members decoded into the struct's fields are %v but the members kept out of ForeignMembers are %v: the difference is dropped on decode (or written twice on encode), so a Feature does not round-trip", ls, ss))
}

func condPos(ifi *ssa.If) token.Pos {
	if p := ifi.Cond.Pos(); p.IsValid() {
		return p
	}
	if in, ok := ifi.Cond.(ssa.Instruction); ok {
		return instrPos(in)
	}
	return firstPos(ifi.Block())
}

// ---------------------------------------------------------------------------
// C18.matching: structureEq under IgnoreOrder is a perfect-matching test
// ---------------------------------------------------------------------------

func init() {
	register(&Rule{
		ID:    "C18.matching",
		Props: []string{"C18"},
		Doc:   "exactEqualsComparator.structureEq interpreted together with everything it calls, for n = 0..3 and every truth assignment of the element relation eq(i,j): with IgnoreOrder it returns true exactly when a permutation pi with eq(i,pi(i)) for all i exists (the relation need not be transitive — under ToleranceXY it is not — so elements that match in place may not be fixed before the search); without it exactly when eq(i,i) for all i",
		Floor: 1,
		Run:   runC18Matching,
	})
}

func permutations(n int) [][]int {
	if n == 0 {
		return [][]int{{}}
	}
	var out [][]int
	for _, p := range permutations(n - 1) {
		for pos := 0; pos <= len(p); pos++ {
			q := append(append(append([]int{}, p[:pos]...), n-1), p[pos:]...)
			out = append(out, q)
		}
	}
	return out
}

func runC18Matching(c *Ctx) {
	f := c.P.Func("geom.(exactEqualsComparator).structureEq")
	if f == nil {
		c.Errorf("anchor geom.(exactEqualsComparator).structureEq does not resolve")
		return
	}
	_ = FuncName(f)
	key := func(i, j int) string { return fmt.Sprintf("EQ(%d,%d)", i, j) }
	problem, undec := "", ""
	models := 0
	inl := inlineAllGeom("geom.(exactEqualsComparator).structureEq", "geom.validPermutation")
	for n := 0; n <= 3 && problem == "" && undec == ""; n++ {
		var atoms []string
		for i := 0; i < n; i++ {
			for j := 0; j < n; j++ {
				atoms = append(atoms, key(i, j))
			}
		}
		perms := permutations(n)
		for _, ign := range []bool{true, false} {
			k4enumerate(nil, nil, atoms, func(m *Model) bool {
				models++
				m.Missing = map[string]bool{}
				m.Bool["$0.ignoreOrder"] = ign
				it := &k4interp{p: c.P, m: m, mem: map[string]k4val{}, inline: inl, recurseNew: true}
				it.opaqueCall = func(args []k4val) (string, bool) {
					if len(args) == 2 && args[0].kind == 2 && args[1].kind == 2 {
						return key(int(args[0].f), int(args[1].f)), true
					}
					return "", false
				}
				res, err := it.call(f, []k4val{{kind: 3, s: "$0"}, {kind: 2, f: float64(n)}, {kind: 3, s: "$eq"}}, nil)
				if err != nil || len(res) != 1 || res[0].kind != 1 {
					undec = fmt.Sprintf("n=%d: %v %v %s", n, err, res, trunc(missingList(m)))
					return false
				}
				want := false
				if ign {
					for _, p := range perms {
						ok := true
						for i := 0; i < n; i++ {
							if !m.Bool[key(i, p[i])] {
								ok = false
							}
						}
						if ok {
							want = true
						}
					}
				} else {
					want = true
					for i := 0; i < n; i++ {
						if !m.Bool[key(i, i)] {
							want = false
						}
					}
				}
				if res[0].b != want {
					var tr []string
					for i := 0; i < n; i++ {
						for j := 0; j < n; j++ {
							if m.Bool[key(i, j)] {
								tr = append(tr, fmt.Sprintf("(%d,%d)", i, j))
							}
						}
					}
					problem = fmt.Sprintf("n=%d, IgnoreOrder=%v, element relation {%s}: returns %v, but %s", n, ign, strings.Join(tr, ""), res[0].b,
						map[bool]string{true: "a pairing of all elements exists", false: "no pairing of all elements exists"}[want])
					return false
				}
				return true
			})
			if problem != "" || undec != "" {
				break
			}
		}
	}
	reportK4(c, f, "perfect matching of the elements", undec, problem, fmt.Sprintf("true exactly when the required pairing exists, in all %d models (n = 0..3, with and without IgnoreOrder)", models))
}

// ---------------------------------------------------------------------------
// C11.nearest
// ---------------------------------------------------------------------------

func init() {
	register(&Rule{
		ID:    "C11.nearest",
		Props: []string{"C11"},
		Doc:   "RTree.Nearest interpreted with PrioritySearch modelled as 'calls the callback with the first record, or not at all': when the callback is invoked with record ID r — for r positive, zero and NEGATIVE (record IDs are arbitrary ints; geom itself loads negative ones) — the result is (r, true); when the tree is empty and the callback is never invoked the flag is false. The found flag is a fact about the search, not about the value of the ID",
		Floor: 1,
		Run:   runC11Nearest,
	})
}

// driveClosureArgs calls every function-valued argument with the given arguments
func driveClosureArgs(it *k4interp, args []k4val, with []k4val, hookErr *error, results *[][]k4val) bool {
	driven := false
	for _, a := range args {
		if a.kind != 7 {
			continue
		}
		fnv, _ := a.v.(*ssa.Function)
		if fnv == nil {
			continue
		}
		var fvs []k4val
		if a.s != "" {
			for _, k := range strings.Split(a.s, "\x00") {
				fvs = append(fvs, k4val{kind: 3, s: k})
			}
		}
		driven = true
		res, err := it.call(fnv, with, fvs)
		if err != nil && *hookErr == nil {
			*hookErr = err
		}
		if results != nil {
			*results = append(*results, res)
		}
	}
	return driven
}

func runC11Nearest(c *Ctx) {
	f := c.P.Func("rtree.(*RTree).Nearest")
	if f == nil {
		c.Errorf("anchor rtree.(*RTree).Nearest does not resolve")
		return
	}
	problem, undec := "", ""
	models := 0
	type tc struct {
		invoke  bool
		rid     float64
		nilRoot bool
	}
	for _, t := range []tc{{false, 0, false}, {false, 0, true}, {true, 7, false}, {true, 0, false}, {true, -1, false}, {true, -5, false}} {
		models++
		// an empty tree has a nil root (only consulted by code that tests it)
		m := &Model{Num: map[string]float64{}, Bool: map[string]bool{"($0.root==nil)": t.nilRoot, "($0.root!=nil)": !t.nilRoot}, Missing: map[string]bool{}}
		it := &k4interp{p: c.P, m: m, mem: map[string]k4val{}}
		var hookErr error
		driven := false
		it.onOpaque = func(name string, args []k4val) {
			if !strings.HasSuffix(name, "PrioritySearch") || !t.invoke {
				if strings.HasSuffix(name, "PrioritySearch") {
					driven = true
				}
				return
			}
			if driveClosureArgs(it, args, []k4val{{kind: 2, f: t.rid}}, &hookErr, nil) {
				driven = true
			}
		}
		it.answer = func(key string, isBool bool) (k4val, bool) {
			if !isBool && strings.Contains(key, "PrioritySearch(") {
				return k4val{kind: 3, s: "nil"}, true
			}
			// the search's own error is nil (Stop is swallowed by PrioritySearch, C11.stop)
			if isBool && strings.Contains(key, "PrioritySearch(") && strings.HasSuffix(key, "!=nil)") {
				return k4val{kind: 1, b: false}, true
			}
			if isBool && strings.Contains(key, "PrioritySearch(") && strings.HasSuffix(key, "==nil)") {
				return k4val{kind: 1, b: true}, true
			}
			return k4val{}, false
		}
		res, err := it.call(f, []k4val{{kind: 3, s: "$0"}, {kind: 3, s: "$1"}}, nil)
		if err != nil || hookErr != nil || (!driven && !t.nilRoot) || len(res) != 2 || res[1].kind != 1 {
			undec = fmt.Sprintf("%v %v driven=%v %v %s", err, hookErr, driven, res, missingList(m))
			break
		}
		if !t.invoke {
			if res[1].b {
				problem = "on an empty tree (the search never calls back) the found flag is true"
			}
			continue
		}
		if !res[1].b || res[0].kind != 2 || res[0].f != t.rid {
			problem = fmt.Sprintf("when the search reports record ID %v, Nearest returns (%s, %v), expected (%v, true)", t.rid, res[0].String(), res[1].b, t.rid)
			break
		}
	}
	reportK4(c, f, "found flag and record ID", undec, problem, fmt.Sprintf("(r, true) for every reported r including negative IDs, false when nothing is reported (%d models)", models))
}

// ---------------------------------------------------------------------------
// C02.unionfind
// ---------------------------------------------------------------------------

func init() {
	register(&Rule{
		ID:    "C02.unionfind",
		Props: []string{"C02", "C01"},
		Doc:   "the disjoint-set structure that decides which components of the two operands still need a connecting ghost edge (without which the overlay is disconnected and Relate labels a component with the wrong face): newDisjointSet, union and find interpreted on concrete arrays for 5 elements and every sequence of up to 3 unions of ordered pairs: afterwards find(a) == find(b) exactly for the pairs connected by the unions (reference: reachability in the union graph), and every find(a) is a root",
		Floor: 1,
		Run:   runC02UnionFind,
	})
}

func runC02UnionFind(c *Ctx) {
	mk := c.P.Func("geom.newDisjointSet")
	un := c.P.Func("geom.(disjointSet).union")
	fd := c.P.Func("geom.(disjointSet).find")
	if mk == nil || un == nil || fd == nil {
		c.Errorf("anchors newDisjointSet / union / find do not resolve")
		return
	}
	const n = 5
	type pair struct{ x, y int }
	var pairs []pair
	for x := 0; x < n; x++ {
		for y := 0; y < n; y++ {
			if x != y {
				pairs = append(pairs, pair{x, y})
			}
		}
	}
	problem, undec := "", ""
	models := 0
	inl := func(g *ssa.Function) bool { return g == fd || g == un || g == mk }
	check := func(seq []pair) bool {
		models++
		m := &Model{Num: map[string]float64{}, Bool: map[string]bool{}, Missing: map[string]bool{}}
		it := &k4interp{p: c.P, m: m, mem: map[string]k4val{}, inline: inl}
		res, err := it.call(mk, []k4val{{kind: 2, f: n}}, nil)
		if err != nil || len(res) != 1 || res[0].kind != 3 {
			undec = fmt.Sprintf("newDisjointSet: %v %v %s", err, res, missingList(m))
			return false
		}
		set := res[0]
		// reference
		ref := make([]int, n)
		for i := range ref {
			ref[i] = i
		}
		var rfind func(int) int
		rfind = func(a int) int {
			for ref[a] != a {
				a = ref[a]
			}
			return a
		}
		for _, p := range seq {
			it.steps = 0
			if _, err := it.call(un, []k4val{set, {kind: 2, f: float64(p.x)}, {kind: 2, f: float64(p.y)}}, nil); err != nil {
				undec = fmt.Sprintf("union: %v %s", err, missingList(m))
				return false
			}
			ref[rfind(p.x)] = rfind(p.y)
		}
		got := make([]int, n)
		for a := 0; a < n; a++ {
			it.steps = 0
			r, err := it.call(fd, []k4val{set, {kind: 2, f: float64(a)}}, nil)
			if err != nil || len(r) != 1 || r[0].kind != 2 {
				undec = fmt.Sprintf("find: %v %v %s", err, r, missingList(m))
				return false
			}
			got[a] = int(r[0].f)
		}
		for a := 0; a < n; a++ {
			for b := 0; b < n; b++ {
				if (got[a] == got[b]) != (rfind(a) == rfind(b)) {
					var ss []string
					for _, p := range seq {
						ss = append(ss, fmt.Sprintf("union(%d,%d)", p.x, p.y))
					}
					problem = fmt.Sprintf("after %s on %d singletons: find(%d)=%d and find(%d)=%d, but the elements are %s", strings.Join(ss, ", "), n, a, got[a], b, got[b],
						map[bool]string{true: "in the same set", false: "in different sets"}[rfind(a) == rfind(b)])
					return false
				}
			}
		}
		return true
	}
	ok := check(nil)
	for _, p1 := range pairs {
		if !ok {
			break
		}
		if ok = check([]pair{p1}); !ok {
			break
		}
		for _, p2 := range pairs {
			if ok = check([]pair{p1, p2}); !ok {
				break
			}
			// a third union only for a canonical first pair (the structure is symmetric under renaming)
			if p1.x == 0 && p1.y == 1 {
				for _, p3 := range pairs {
					if ok = check([]pair{p1, p2, p3}); !ok {
						break
					}
				}
			}
			if !ok {
				break
			}
		}
	}
	reportK4(c, un, "union/find agree with reachability", undec, problem, fmt.Sprintf("find(a)==find(b) iff connected, for every sequence explored (%d sequences of up to 3 unions on %d elements)", models, n))
}

// ---------------------------------------------------------------------------
// C17.fractions
// ---------------------------------------------------------------------------

func init() {
	register(&Rule{
		ID:    "C17.fractions",
		Props: []string{"C17"},
		Doc:   "InterpolateEvenlySpacedPoints(n) interpreted on a non-empty line for n = 2..130 with the interpolator opaque: it asks for exactly n points, the first at fraction 0 and the LAST AT EXACTLY 1 (so the result ends at the final control point with its own Z/M — i/(n-1) is exact at i = n-1, whereas i * (1/(n-1)) is not for n = 50, 99, …), the fractions strictly increasing; n = 1 asks for the midpoint 0.5",
		Floor: 1,
		Run:   runC17Fractions,
	})
}

func runC17Fractions(c *Ctx) {
	f := c.P.Func("geom.(LineString).InterpolateEvenlySpacedPoints")
	if f == nil {
		c.Errorf("anchor geom.(LineString).InterpolateEvenlySpacedPoints does not resolve")
		return
	}
	problem, undec := "", ""
	models := 0
	for n := 1; n <= 130 && problem == "" && undec == ""; n++ {
		models++
		m := &Model{Num: map[string]float64{}, Bool: map[string]bool{}, Missing: map[string]bool{}}
		it := &k4interp{p: c.P, m: m, mem: map[string]k4val{}}
		var fracs []float64
		bad := ""
		it.onOpaque = func(name string, args []k4val) {
			if strings.HasSuffix(name, ".interpolate") || strings.HasSuffix(name, ".InterpolatePoint") {
				a := args[len(args)-1]
				if a.kind != 2 {
					bad = "a fraction that is not a number: " + a.String()
					return
				}
				fracs = append(fracs, a.f)
			}
		}
		it.answer = func(key string, isBool bool) (k4val, bool) {
			if !isBool && strings.Contains(key, ").Length(") {
				return k4val{kind: 2, f: 3}, true
			}
			if isBool && strings.Contains(key, ").IsEmpty(") {
				return k4val{kind: 1, b: false}, true
			}
			return k4val{}, false
		}
		if _, err := it.call(f, []k4val{{kind: 3, s: "$0"}, {kind: 2, f: float64(n)}}, nil); err != nil || bad != "" {
			undec = fmt.Sprintf("n=%d: %v %s %s", n, err, bad, missingList(m))
			break
		}
		if len(fracs) != n {
			problem = fmt.Sprintf("for n=%d the interpolator is asked for %d points", n, len(fracs))
			break
		}
		if n == 1 {
			if fracs[0] != 0.5 {
				problem = fmt.Sprintf("for n=1 the point is asked at fraction %v, expected the midpoint 0.5", fracs[0])
			}
			continue
		}
		if fracs[0] != 0 || fracs[n-1] != 1 {
			problem = fmt.Sprintf("for n=%d the first and last points are asked at fractions %v and %v, expected exactly 0 and 1 (a last fraction below 1 stops short of the final control point and takes Z/M from an earlier vertex)", n, fracs[0], fracs[n-1])
			break
		}
		for i := 1; i < n; i++ {
			if !(fracs[i] > fracs[i-1]) {
				problem = fmt.Sprintf("for n=%d the fractions are not strictly increasing at position %d (%v then %v)", n, i, fracs[i-1], fracs[i])
				break
			}
		}
	}
	reportK4(c, f, "fractions requested for n points", undec, problem, fmt.Sprintf("n points, from exactly 0 to exactly 1, strictly increasing (n = 1..%d)", models))
}

// ---------------------------------------------------------------------------
// C03.xyonly: validity is a property of the XY point set
// ---------------------------------------------------------------------------

func init() {
	register(&Rule{
		ID:    "C03.xyonly",
		Props: []string{"C03"},
		Doc:   "validity depends on XY only: in the functions reachable from the Validate methods no Z or M ordinate takes part in a decision — no comparison of whole Coordinates values (which compares Z, M and the type too), and no Z/M field of a Coordinates value, or float of a sequence beyond X and Y (Sequence.Get), flows into a comparison. (Two points that differ only in Z are the same point for 'two distinct points', ring closure and simplicity.)",
		Floor: 10,
		Run:   runC03XYOnly,
	})
}

func runC03XYOnly(c *Ctx) {
	reach := validateReach(c)
	var fs []*ssa.Function
	for f := range reach {
		if pkgOf(f) == "geom" && len(f.Blocks) > 0 {
			fs = append(fs, f)
		}
	}
	sort.Slice(fs, func(i, j int) bool {
		return FuncName(fs[i]) < FuncName(fs[j]) || (FuncName(fs[i]) == FuncName(fs[j]) && fs[i].Pos() < fs[j].Pos())
	})
	n := 0
	isCoords := func(t types.Type) bool { return namedName(t) == "Coordinates" && pkgOfType(t) == "geom" }
	for _, f := range fs {
		fn := FuncName(f)
		// the implementation of Sequence.Get / Coordinates helpers themselves are data movement
		if strings.HasPrefix(fn, "geom.(Sequence).") || strings.HasPrefix(fn, "geom.(Coordinates).") {
			continue
		}
		n++
		bad := ""
		eachInstr(f, func(in ssa.Instruction) {
			switch x := in.(type) {
			case *ssa.BinOp:
				if (x.Op == token.EQL || x.Op == token.NEQ) && isCoords(x.X.Type()) {
					bad = "whole Coordinates values (X, Y, Z, M and type) are compared at " + c.P.Pos(x.Pos())
				}
			case *ssa.Field:
				if isCoords(x.X.Type()) {
					_, fld := fieldOfField(x)
					if (fld == "Z" || fld == "M") && reachesComparison(x, 0, map[ssa.Value]bool{}) {
						bad = "the " + fld + " ordinate read at " + c.P.Pos(x.Pos()) + " flows into a comparison"
					}
				}
			case *ssa.FieldAddr:
				if isCoords(deref(x.X.Type())) {
					_, fld := fieldOfAddr(x)
					if fld == "Z" || fld == "M" {
						for _, r := range *x.Referrers() {
							if u, ok := r.(*ssa.UnOp); ok && u.Op == token.MUL && reachesComparison(u, 0, map[ssa.Value]bool{}) {
								bad = "the " + fld + " ordinate read at " + c.P.Pos(x.Pos()) + " flows into a comparison"
							}
						}
					}
				}
			}
		})
		c.Check(bad == "", f.Pos(), fn, "no Z/M in decisions", "no comparison involves Z, M or whole Coordinates", bad+": the verdict of Validate then depends on Z/M, which are not part of the point set")
	}
	if n < 10 {
		c.Errorf("only %d functions reachable from Validate, expected >= 10", n)
	}
}

// reachesComparison: v (a float) flows through arithmetic/conversions/phis into a comparison or a call argument of a predicate
func reachesComparison(v ssa.Value, d int, seen map[ssa.Value]bool) bool {
	if d > 8 || seen[v] {
		return false
	}
	seen[v] = true
	refs := v.Referrers()
	if refs == nil {
		return false
	}
	for _, r := range *refs {
		switch x := r.(type) {
		case *ssa.BinOp:
			switch x.Op {
			case token.EQL, token.NEQ, token.LSS, token.GTR, token.LEQ, token.GEQ:
				return true
			}
			if reachesComparison(x, d+1, seen) {
				return true
			}
		case *ssa.Convert:
			if reachesComparison(x, d+1, seen) {
				return true
			}
		case *ssa.Phi:
			if reachesComparison(x, d+1, seen) {
				return true
			}
		case *ssa.UnOp:
			if reachesComparison(x, d+1, seen) {
				return true
			}
		case *ssa.Call:
			if cal := staticCallee(x); cal != nil && cal.Pkg != nil && cal.Pkg.Pkg.Path() == "math" {
				switch cal.Name() {
				case "IsNaN", "IsInf":
					return true
				}
				if reachesComparison(x, d+1, seen) {
					return true
				}
			}
		}
	}
	return false
}

// ---------------------------------------------------------------------------
// C07.bboxvalid / C07.fresh
// ---------------------------------------------------------------------------

func init() {
	register(&Rule{
		ID:    "C07.bboxvalid",
		Props: []string{"C07"},
		Doc:   "the TWKB bounding box only covers points that were written: every store of `true` to twkbWriter.bboxValid happens where at least one point has been folded into the box — inside the loop over the points (per iteration), or under a dominating test that another writer's box is valid, or that a count is positive. Marking the box valid after a loop that may run zero times makes the zero-initialised box part of the header for an empty point array",
		Floor: 2,
		Run:   runC07BBoxValid,
	})
	register(&Rule{
		ID:    "C07.fresh",
		Props: []string{"C07", "C08"},
		Doc:   "every member of a TWKB GeometryCollection is written from a clean state: in writeGeometryCollection the writer on which writeGeometry is called for a member is created inside the member loop, or — when one writer is reused — it is reset in the loop by a helper that clears every 'sticky' flag of the writer (a field whose only stores outside constructors set it to one non-zero constant, like isEmpty / bboxValid: once set it stays set, so state leaks from one member to the next and later members get the wrong headers)",
		Floor: 1,
		Run:   runC07Fresh,
	})
}

func inAnyLoop(b *ssa.BasicBlock) bool {
	for _, h := range b.Parent().Blocks {
		if l := naturalLoop(h); l != nil && l[b] {
			return true
		}
	}
	return false
}

func runC07BBoxValid(c *Ctx) {
	n := 0
	for _, f := range c.P.Funcs {
		if pkgOf(f) != "geom" {
			continue
		}
		fn := FuncName(f)
		k := 0
		eachInstr(f, func(in ssa.Instruction) {
			st, ok := in.(*ssa.Store)
			if !ok {
				return
			}
			fa, ok := st.Addr.(*ssa.FieldAddr)
			if !ok {
				return
			}
			tn, fld := fieldOfAddr(fa)
			if tn != "twkbWriter" || fld != "bboxValid" {
				return
			}
			if b, ok := constBool(st.Val); !ok || !b {
				return
			}
			n++
			k++
			construct := fmt.Sprintf("bboxValid = true #%d", k)
			if inAnyLoop(st.Block()) {
				c.OK(st.Pos(), fn, construct, "set per iteration of a loop (a point has just been folded in)")
				return
			}
			for _, g0 := range guardsAt(st) {
				for _, g := range expandGuard(g0) {
					// other.bboxValid is true
					if u, ok := g.Cond.(*ssa.UnOp); ok && u.Op == token.MUL && g.Truth {
						if fa2, ok := u.X.(*ssa.FieldAddr); ok {
							if tn2, fld2 := fieldOfAddr(fa2); tn2 == "twkbWriter" && fld2 == "bboxValid" {
								c.OK(st.Pos(), fn, construct, "under a test that the merged writer's box is valid")
								return
							}
						}
					}
					if bo, ok := g.Cond.(*ssa.BinOp); ok {
						if bt, ok := bo.X.Type().Underlying().(*types.Basic); ok && bt.Info()&types.IsInteger != 0 {
							zeroY := false
							if kc, ok := constInt(bo.Y); ok && kc == 0 {
								zeroY = true
							}
							if zeroY && ((bo.Op == token.GTR && g.Truth) || (bo.Op == token.NEQ && g.Truth) || (bo.Op == token.EQL && !g.Truth) || (bo.Op == token.LEQ && !g.Truth)) {
								c.OK(st.Pos(), fn, construct, "under a test that a count is positive")
								return
							}
						}
					}
				}
			}
			c.Bad(st.Pos(), fn, construct, "the box is marked valid on a path on which no point need have been folded into it (outside the point loop and without a test that there was a point): an empty point array then puts the zero-initialised box into the bounding-box header")
		})
	}
	if n < 2 {
		c.Errorf("only %d stores of true to bboxValid found, expected >= 2", n)
	}
}

// stickyFlags: fields of the named struct whose stores outside constructors all write the same non-zero constant
func stickyFlags(c *Ctx, typeName string, skip map[*ssa.Function]bool) []string {
	vals := map[string]map[string]bool{}
	for _, f := range c.P.Funcs {
		if pkgOf(f) != "geom" || skip[f] {
			continue
		}
		// constructors: functions that return the type (or a pointer to it)
		isCtor := false
		res := f.Signature.Results()
		for i := 0; i < res.Len(); i++ {
			if namedName(res.At(i).Type()) == typeName {
				isCtor = true
			}
		}
		if isCtor {
			continue
		}
		eachInstr(f, func(in ssa.Instruction) {
			st, ok := in.(*ssa.Store)
			if !ok {
				return
			}
			fa, ok := st.Addr.(*ssa.FieldAddr)
			if !ok {
				return
			}
			tn, fld := fieldOfAddr(fa)
			if tn != typeName {
				return
			}
			if vals[fld] == nil {
				vals[fld] = map[string]bool{}
			}
			if k, ok := st.Val.(*ssa.Const); ok && k.Value != nil {
				vals[fld][k.Value.ExactString()] = true
			} else {
				vals[fld]["?"] = true
			}
		})
	}
	var out []string
	for fld, vs := range vals {
		if len(vs) != 1 {
			continue
		}
		for v := range vs {
			if v != "?" && v != "false" && v != "0" && v != `""` {
				out = append(out, fld)
			}
		}
	}
	sort.Strings(out)
	return out
}

func runC07Fresh(c *Ctx) {
	runFreshPerMember(c, "twkbWriter", "geom.(*twkbWriter).writeGeometryCollection", []string{"geom.(*twkbWriter).writeGeometry", "geom.(*twkbWriter).writeGeometryByType"}, "writer", "written")
	// the decoder mirrors it: one sub-parser per member
	runFreshPerMember(c, "twkbParser", "geom.(*twkbParser).nextGeometryCollection", []string{"geom.(*twkbParser).parseGeometry", "geom.(*twkbParser).nextGeometry"}, "parser", "parsed")
}

// runFreshPerMember: in the collection routine collFn of typeName, the object on
// which a member routine is called inside the member loop is created per member,
// or reset by a helper that clears every sticky flag of the type.
func runFreshPerMember(c *Ctx, typeName, collFn string, memberFns []string, noun, verb string) {
	f := c.P.Func(collFn)
	if f == nil {
		c.Errorf("anchor %s does not resolve", collFn)
		return
	}
	isMember := func(cal *ssa.Function) bool {
		for _, m := range memberFns {
			if cal != nil && FuncName(cal) == m {
				return true
			}
		}
		return false
	}
	fn := FuncName(f)
	n := 0
	eachCall(f, func(ci ssa.CallInstruction) {
		cal := staticCallee(ci)
		// the member write: writeGeometry, or its type dispatch called directly (whether the
		// member's own headers are then written is C07.formed's question)
		if !isMember(cal) {
			return
		}
		n++
		recv := ci.Common().Args[0]
		var loop map[*ssa.BasicBlock]bool
		for _, h := range f.Blocks {
			if l := naturalLoop(h); l != nil && l[ci.Block()] {
				if loop == nil || len(l) < len(loop) {
					loop = l
				}
			}
		}
		construct := noun + " of a member"
		if loop == nil {
			c.Undecided(ci.Pos(), fn, construct, "the member is not written inside a loop; the shape of the routine is unknown to this rule")
			return
		}
		if recv == f.Params[0] {
			c.Bad(ci.Pos(), fn, construct, "the member is "+verb+" with the collection's own "+noun+": its reference point, headers and flags are shared with the parent")
			return
		}
		if in, ok := recv.(ssa.Instruction); ok && loop[in.Block()] {
			if call, ok := recv.(*ssa.Call); ok {
				c.OK(ci.Pos(), fn, construct, "created inside the member loop by "+calleeName(call))
				return
			}
			// a variable declared inside the loop body: a new one for every member
			if _, ok := recv.(*ssa.Alloc); ok {
				c.OK(ci.Pos(), fn, construct, "a variable declared inside the member loop (a new one for every member)")
				return
			}
		}
		// reused writer: a reset helper must be called on it inside the loop, before the write
		var reset *ssa.Function
		for b := range loop {
			for _, in := range b.Instrs {
				if call, ok := in.(*ssa.Call); ok && len(call.Call.Args) >= 1 && call.Call.Args[0] == recv {
					if g := staticCallee(call); g != nil && g != cal && (call.Block().Dominates(ci.Block())) && storesOnlyZeroToReceiver(g) {
						reset = g
					}
				}
			}
		}
		if reset == nil {
			c.Bad(ci.Pos(), fn, construct, "one "+noun+" is reused for every member and never returned to a clean state inside the loop: the reference point, buffers and flags of one member leak into the next")
			return
		}
		sticky := stickyFlags(c, typeName, map[*ssa.Function]bool{reset: true})
		cleared := map[string]bool{}
		eachInstr(reset, func(in ssa.Instruction) {
			if st, ok := in.(*ssa.Store); ok {
				if fa, ok := st.Addr.(*ssa.FieldAddr); ok {
					_, fld := fieldOfAddr(fa)
					cleared[fld] = true
				}
				// whole-struct store
				if st.Addr == ssa.Value(reset.Params[0]) {
					for _, s := range sticky {
						cleared[s] = true
					}
				}
			}
		})
		var missing []string
		for _, s := range sticky {
			if !cleared[s] {
				missing = append(missing, s)
			}
		}
		c.Check(len(missing) == 0, ci.Pos(), fn, construct, fmt.Sprintf("reused, and reset by %s which clears every sticky flag %v", FuncName(reset), sticky),
			fmt.Sprintf("one %s is reused and reset by %s, which does not clear %v: once a member has set it, it stays set for every later member (a flag announced by one member's header is applied to the members after it)", noun, FuncName(reset), missing))
	})
	if n < 1 {
		// the per-member step may have been split off into a helper that is called from the member loop
		eachCall(f, func(ci ssa.CallInstruction) {
			h := staticCallee(ci)
			if h == nil || !isNewHelper(h) || len(h.Blocks) == 0 || !inAnyLoop(ci.Block()) {
				return
			}
			eachCall(h, func(ci2 ssa.CallInstruction) {
				cal := staticCallee(ci2)
				if !isMember(cal) {
					return
				}
				n++
				recv := ci2.Common().Args[0]
				construct := noun + " of a member"
				if call, ok := recv.(*ssa.Call); ok && recv != ssa.Value(h.Params[0]) {
					c.OK(ci2.Pos(), fn, construct, "created per member in the helper "+FuncName(h)+" by "+calleeName(call))
					return
				}
				// a variable of the helper: a new one on every call, i.e. for every member
				if al, ok := recv.(*ssa.Alloc); ok && al.Parent() == h {
					c.OK(ci2.Pos(), fn, construct, "a variable of the helper "+FuncName(h)+" (a new one for every member)")
					return
				}
				c.Bad(ci2.Pos(), fn, construct, "the helper "+FuncName(h)+" handles the member with a "+noun+" it did not create for that member: state of one member leaks into the next")
			})
		})
	}
	if n < 1 {
		c.Errorf("%s does not call %v", collFn, memberFns)
	}
}

// storesOnlyZeroToReceiver: g's only stores are zero values / emptied slices to fields of its receiver
func storesOnlyZeroToReceiver(g *ssa.Function) bool {
	if g == nil || len(g.Blocks) == 0 || len(g.Params) == 0 {
		return false
	}
	n := 0
	ok := true
	eachInstr(g, func(in ssa.Instruction) {
		st, is := in.(*ssa.Store)
		if !is {
			return
		}
		fa, is := st.Addr.(*ssa.FieldAddr)
		if !is || fa.X != ssa.Value(g.Params[0]) {
			if st.Addr == ssa.Value(g.Params[0]) {
				n++
				return
			}
			if _, isAlloc := st.Addr.(*ssa.Alloc); isAlloc {
				return
			}
			if ia, isIdx := st.Addr.(*ssa.IndexAddr); isIdx {
				_ = ia
				return
			}
			ok = false
			return
		}
		n++
	})
	return ok && n >= 2
}

// callerLenGuards: for each dominating guard at cs, whether it states len(input) >= (or >) a computed value
func callerLenGuards(cs ssa.Instruction, fa *ssa.FieldAddr) []bool {
	var out []bool
	for _, g0 := range guardsAt(cs) {
		for _, g := range expandGuard(g0) {
			bo, ok := g.Cond.(*ssa.BinOp)
			if !ok {
				continue
			}
			op := bo.Op
			var other ssa.Value
			switch {
			case isLenOfInput(bo.X, fa):
				other = bo.Y
			case isLenOfInput(bo.Y, fa):
				other = bo.X
				switch op {
				case token.LSS:
					op = token.GTR
				case token.GTR:
					op = token.LSS
				case token.LEQ:
					op = token.GEQ
				case token.GEQ:
					op = token.LEQ
				}
			default:
				continue
			}
			if !g.Truth {
				switch op {
				case token.LSS:
					op = token.GEQ
				case token.GTR:
					op = token.LEQ
				case token.LEQ:
					op = token.GTR
				case token.GEQ:
					op = token.LSS
				}
			}
			if _, isConst := stripConv(other).(*ssa.Const); isConst {
				continue
			}
			out = append(out, op == token.GEQ || op == token.GTR)
		}
	}
	return out
}

// ---------------------------------------------------------------------------
// C20.siblings: thin wrappers agree across the geometry types
// ---------------------------------------------------------------------------

var sevenTypes = []string{"Point", "LineString", "Polygon", "MultiPoint", "MultiLineString", "MultiPolygon", "GeometryCollection"}

// wrapperBehaviour interprets f with every call opaque and every Boolean query answered by each
// combination (at most 3 queries); returns "answers -> results" lines with the type's own name replaced by T
func wrapperBehaviour(c *Ctx, f *ssa.Function, typeName string) ([]string, string) {
	var lines []string
	nb := 0
	for mask := 0; mask < 1<<uint(nb) || mask == 0; mask++ {
		m := &Model{Num: map[string]float64{}, Bool: map[string]bool{}, Missing: map[string]bool{}}
		it := &k4interp{p: c.P, m: m, mem: map[string]k4val{}}
		var asked []string
		it.answer = func(key string, isBool bool) (k4val, bool) {
			if !isBool {
				return k4val{}, false
			}
			for i, k := range asked {
				if k == key {
					return k4val{kind: 1, b: mask&(1<<uint(i)) != 0}, true
				}
			}
			asked = append(asked, key)
			return k4val{kind: 1, b: mask&(1<<uint(len(asked)-1)) != 0}, true
		}
		args := []k4val{}
		for i := range f.Params {
			args = append(args, k4val{kind: 3, s: fmt.Sprintf("$%d", i)})
		}
		res, err := it.call(f, args, nil)
		if err != nil {
			return nil, fmt.Sprintf("%v %s", err, missingList(m))
		}
		if len(asked) > 3 {
			return nil, "more than 3 Boolean queries"
		}
		if len(asked) > nb {
			nb = len(asked)
		}
		var rs []string
		for _, r := range res {
			rs = append(rs, r.String())
		}
		var as []string
		for i, k := range asked {
			as = append(as, fmt.Sprintf("%s=%v", k, mask&(1<<uint(i)) != 0))
		}
		line := strings.Join(as, ",") + " -> " + strings.Join(rs, ", ") + " ; effects: " + strings.Join(it.effects, ";")
		line = strings.ReplaceAll(line, "("+typeName+")", "(T)")
		line = strings.ReplaceAll(line, "(*"+typeName+")", "(*T)")
		lines = append(lines, line)
		if mask+1 >= 1<<uint(nb) {
			break
		}
	}
	sort.Strings(lines)
	return lines, ""
}

func dumpSiblings(c *Ctx, methods []string) {
	for _, mn := range methods {
		for _, tn := range sevenTypes {
			f := c.P.Func("geom.(" + tn + ")." + mn)
			if f == nil {
				f = c.P.Func("geom.(*" + tn + ")." + mn)
			}
			if f == nil {
				fmt.Printf("%s %s: absent\n", mn, tn)
				continue
			}
			ls, u := wrapperBehaviour(c, f, tn)
			if u != "" {
				fmt.Printf("%s %s: UNDEC %s\n", mn, tn, trunc(u))
				continue
			}
			fmt.Printf("%s %s: %s\n", mn, tn, strings.Join(ls, " || "))
		}
	}
}

type wrapperSpec struct {
	method string
	want   []string // normalised behaviour lines (answers -> results)
	what   string
}

var wrapperInline = map[string]bool{"Force2D": true, "AsBinary": true, "AsText": true, "Value": true, "ConvexHull": true, "ForceCW": true, "ForceCCW": true, "Scan": true, "UnmarshalJSON": true, "SnapToGrid": true}

func registerWrapperRule(id string, props []string, doc string, specs []wrapperSpec, floor int) {
	register(&Rule{
		ID:    id,
		Props: props,
		Doc:   doc,
		Floor: floor,
		Run: func(c *Ctx) {
			n := 0
			for _, sp := range specs {
				for _, tn := range append(append([]string{}, sevenTypes...), "Sequence") {
					f := c.P.Func("geom.(" + tn + ")." + sp.method)
					if f == nil {
						f = c.P.Func("geom.(*" + tn + ")." + sp.method)
					}
					if f == nil {
						continue
					}
					n++
					ls, u := wrapperBehaviourInl(c, f, tn)
					fn := FuncName(f)
					if u != "" {
						if eq, detail := wrapperDeepEquiv(c, f, tn, sp.method); eq {
							c.OK(f.Pos(), fn, "delegation", sp.what+" (equal to it when the delegate's body is unfolded: "+detail+")")
							continue
						}
						c.Undecided(f.Pos(), fn, "delegation", "cannot interpret the wrapper: "+trunc(u))
						continue
					}
					got := strings.Join(ls, " || ")
					want := strings.Join(sp.want, " || ")
					if got != want {
						// not the literal delegation: is it equivalent to it one level down (the delegate's body unfolded on both sides)?
						if eq, detail := wrapperDeepEquiv(c, f, tn, sp.method); eq {
							c.OK(f.Pos(), fn, "delegation", sp.what+" (not written as that call, but equal to it when the delegate's body is unfolded: "+detail+")")
							continue
						}
					}
					c.Check(got == want, f.Pos(), fn, "delegation", sp.what, fmt.Sprintf("%s.%s should be %s, i.e. [%s] like its siblings on the other geometry types, but behaves as [%s]", tn, sp.method, sp.what, want, trunc(got)))
				}
			}
			if n < floor {
				c.Errorf("only %d wrapper methods found, expected >= %d", n, floor)
			}
		},
	})
}

// wrapperBehaviourInl: as wrapperBehaviour, with the sibling wrappers themselves (and new helpers) inlined, so that
// Value() written as AsBinary() or as AppendWKB(nil) reads the same
func wrapperBehaviourInl(c *Ctx, f *ssa.Function, typeName string) ([]string, string) {
	old := k4WrapperInline
	k4WrapperInline = func(g *ssa.Function) bool {
		if g == f || g.Signature.Recv() == nil {
			return false
		}
		rn := namedName(g.Signature.Recv().Type())
		return rn == typeName && wrapperInline[g.Name()]
	}
	defer func() { k4WrapperInline = old }()
	return wrapperBehaviour(c, f, typeName)
}

var k4WrapperInline func(g *ssa.Function) bool

func init() {
	nores := " ; effects: "
	registerWrapperRule("C04.wrappers", []string{"C04"},
		"the WKB convenience methods of all seven geometry types are the thin wrappers they are documented to be (each interpreted symbolically, sibling wrappers inlined): AsBinary() = AppendWKB(nil); Value() = (AsBinary(), nil); Scan(src) = scanAsType(src, receiver) — the same on every type",
		[]wrapperSpec{
			{"AsBinary", []string{" -> geom.(T).AppendWKB($0,nil)" + nores}, "AppendWKB(nil)"},
			{"Value", []string{" -> geom.(T).AppendWKB($0,nil), nil" + nores}, "(AppendWKB(nil), nil)"},
			{"Scan", []string{" -> geom.scanAsType($1,$0)" + nores}, "scanAsType(src, receiver)"},
		}, 21)
	registerWrapperRule("C05.wrappers", []string{"C05"},
		"AsText() of all seven geometry types is string(AppendWKT(nil)) (interpreted symbolically)",
		[]wrapperSpec{{"AsText", []string{" -> geom.(T).AppendWKT($0,nil)" + nores}, "AppendWKT(nil)"}}, 7)
	registerWrapperRule("C06.wrappers", []string{"C06"},
		"UnmarshalJSON of all seven geometry types is unmarshalGeoJSONAsType(data, receiver) (interpreted symbolically)",
		[]wrapperSpec{{"UnmarshalJSON", []string{" -> geom.unmarshalGeoJSONAsType($1,$0)" + nores}, "unmarshalGeoJSONAsType(data, receiver)"}}, 7)
	registerWrapperRule("C13.wrappers", []string{"C13"},
		"ConvexHull() of all seven geometry types is convexHull(receiver.AsGeometry()) (interpreted symbolically)",
		[]wrapperSpec{{"ConvexHull", []string{" -> geom.convexHull(geom.(T).AsGeometry($0))" + nores}, "convexHull(AsGeometry())"}}, 7)
	registerWrapperRule("C16.wrappers", []string{"C16", "C12"},
		"Force2D() of all seven geometry types is ForceCoordinatesType(DimXY), and SnapToGrid(dp) is TransformXY(snapToGridXY(dp)) (interpreted symbolically) — so the coordinate-type and carry-along guarantees established for ForceCoordinatesType and TransformXY hold for them",
		[]wrapperSpec{
			{"Force2D", []string{" -> geom.(T).ForceCoordinatesType($0,0)" + nores}, "ForceCoordinatesType(DimXY)"},
			{"SnapToGrid", []string{" -> geom.(T).TransformXY($0,geom.snapToGridXY($1))" + nores}, "TransformXY(snapToGridXY(dp))"},
		}, 14)
	registerWrapperRule("C14.wrappers", []string{"C14", "C16", "C12"},
		"ForceCW / ForceCCW of Polygon, MultiPolygon and GeometryCollection (interpreted symbolically under both answers of the orientation test): the receiver itself when IsCW() (resp. IsCCW()) already holds, otherwise forceOrientation(true) (resp. false) — the direction flag matches the method on every type",
		[]wrapperSpec{
			{"ForceCW", []string{"geom.(T).IsCW($0)=false -> geom.(T).forceOrientation($0,true)" + nores, "geom.(T).IsCW($0)=true -> $0" + nores}, "receiver if IsCW() else forceOrientation(true)"},
			{"ForceCCW", []string{"geom.(T).IsCCW($0)=false -> geom.(T).forceOrientation($0,false)" + nores, "geom.(T).IsCCW($0)=true -> $0" + nores}, "receiver if IsCCW() else forceOrientation(false)"},
		}, 6)
}

// paramOf: index of the parameter of f that v (through conversions) is, or -1
func paramOf(f *ssa.Function, v ssa.Value) int {
	v = stripConv(v)
	for i, p := range f.Params {
		if ssa.Value(p) == v {
			return i
		}
	}
	return -1
}

// exploration helper: loops in bool functions with in-body returns of both constants
func dumpBoolLoops(c *Ctx) {
	for _, f := range c.P.Funcs {
		if !c.P.InRepo(f) || len(f.Blocks) == 0 {
			continue
		}
		res := f.Signature.Results()
		if res.Len() != 1 {
			continue
		}
		if bt, ok := res.At(0).Type().Underlying().(*types.Basic); !ok || bt.Kind() != types.Bool {
			continue
		}
		for _, h := range f.Blocks {
			loop := naturalLoop(h)
			if loop == nil {
				continue
			}
			var after *ssa.Return
			for _, s := range h.Succs {
				if !loop[s] {
					after = returnAfter(s)
				}
			}
			d := "?"
			if after != nil {
				if b, ok := constBool(after.Results[0]); ok {
					d = fmt.Sprint(b)
				}
			}
			nt, nf, nb := 0, 0, 0
			for _, e := range bodyExits(h, loop) {
				r := returnAfter(e.to)
				if r == nil {
					if !inEnclosingLoop(f, h, e.to) && !endsInPanic(e.to) {
						nb++
					}
					continue
				}
				if b, ok := constBool(r.Results[0]); ok {
					if b {
						nt++
					} else {
						nf++
					}
				}
			}
			fmt.Printf("%s loop#%d default=%s in-body: true=%d false=%d break=%d @%s\n", FuncName(f), loopOrdinal(f, h), d, nt, nf, nb, c.P.Pos(firstPos(h)))
		}
	}
}

// ---------------------------------------------------------------------------
// quantifier loops in the Boolean predicates (generalisation of C09.exists)
// ---------------------------------------------------------------------------

// checkQuantifierLoops: for every loop of f whose fall-through answer is the constant D and in
// whose body the opposite answer (a witness / a counter-example) can be returned, D is not returned
// from inside the loop and the loop is not left by a break that reaches `return D`.
func checkQuantifierLoops(c *Ctx, f *ssa.Function, reviewed map[string]string) int {
	res := f.Signature.Results()
	if res.Len() != 1 || len(f.Blocks) == 0 {
		return 0
	}
	if bt, ok := res.At(0).Type().Underlying().(*types.Basic); !ok || bt.Kind() != types.Bool {
		return 0
	}
	fn := FuncName(f)
	n := 0
	for _, h := range f.Blocks {
		loop := naturalLoop(h)
		if loop == nil {
			continue
		}
		var after *ssa.Return
		for _, s := range h.Succs {
			if !loop[s] {
				after = returnAfter(s)
			}
		}
		if after == nil {
			continue
		}
		dflt, ok := constBool(after.Results[0])
		if !ok {
			continue
		}
		exits := bodyExits(h, loop)
		witness := false
		for _, e := range exits {
			if r := returnAfter(e.to); r != nil {
				if b, ok := constBool(r.Results[0]); ok && b != dflt {
					witness = true
				} else if !ok {
					// a computed answer from inside the loop can be the opposite one too
					witness = true
				}
			}
		}
		if !witness {
			continue
		}
		n++
		kind := map[bool]string{false: "exists", true: "for-all"}[dflt]
		construct := fmt.Sprintf("%s loop #%d", kind, loopOrdinal(f, h))
		if why, ok := reviewed[fn]; ok {
			c.Except(firstPos(h), fn, construct, why)
			continue
		}
		bad := ""
		for _, e := range exits {
			if endsInPanic(e.to) {
				continue
			}
			r := returnAfter(e.to)
			if r == nil {
				if inEnclosingLoop(f, h, e.to) {
					continue
				}
				bad = "left by a break at " + c.P.Pos(firstPos(e.from))
				continue
			}
			if b, ok := constBool(r.Results[0]); ok && b == dflt {
				bad = fmt.Sprintf("answered `%v` from inside the loop at %s", dflt, c.P.Pos(instrPos(r)))
			} else if !ok && !impliedOpposite(r, dflt) {
				bad = fmt.Sprintf("answered with a computed value, which can be `%v`, from inside the loop at %s (the verdict on one candidate is returned for all of them)", dflt, c.P.Pos(instrPos(r)))
			}
		}
		c.Check(bad == "", firstPos(h), fn, construct, fmt.Sprintf("`%v` only after every candidate was looked at", dflt), "a loop that searches for a "+map[bool]string{false: "witness", true: "counter-example"}[dflt]+" is "+bad+": the candidates after that point are never looked at, so the answer depends on their order")
	}
	return n
}

// impliedOpposite: the computed value returned at r is known to be the
// opposite of dflt there (it is the condition of a dominating branch, taken on
// the edge that makes it so).
func impliedOpposite(r *ssa.Return, dflt bool) bool {
	v := r.Results[0]
	for _, g0 := range guardsAtBlock(r.Block()) {
		for _, g := range expandGuard(g0) {
			if g.Cond == v && g.Truth == !dflt {
				return true
			}
		}
	}
	return false
}

func registerQuantRule(id string, props []string, doc string, floor int, pick func(c *Ctx, f *ssa.Function) bool, reviewed map[string]string) {
	register(&Rule{ID: id, Props: props, Doc: doc, Floor: floor, Run: func(c *Ctx) {
		n := 0
		var fs []*ssa.Function
		seen := map[*ssa.Function]bool{}
		for _, f := range c.P.Funcs {
			if c.P.InRepo(f) && pick(c, f) {
				fs = append(fs, f)
				seen[f] = true
			}
		}
		// helpers split off the picked functions carry their loops with them
		for i := 0; i < len(fs); i++ {
			eachCall(fs[i], func(ci ssa.CallInstruction) {
				if cal := staticCallee(ci); cal != nil && isNewHelper(cal) && len(cal.Blocks) > 0 && !seen[cal] {
					seen[cal] = true
					fs = append(fs, cal)
				}
			})
		}
		sort.Slice(fs, func(i, j int) bool {
			return FuncName(fs[i]) < FuncName(fs[j]) || (FuncName(fs[i]) == FuncName(fs[j]) && fs[i].Pos() < fs[j].Pos())
		})
		for _, f := range fs {
			n += checkQuantifierLoops(c, f, reviewed)
		}
		if n < floor {
			c.Errorf("only %d quantifier loops found, expected >= %d", n, floor)
		}
	}})
}

func init() {
	general := "a Boolean predicate that loops over candidates and can answer the opposite of its fall-through answer from inside the loop (a witness for `exists`, a counter-example for `for all`) never returns the fall-through answer from inside the loop and never breaks out to it: "
	registerQuantRule("C18.quantifier", []string{"C18"}, general+"the element-wise comparisons of ExactEquals (structureEq, the ring/line rotations and reversals of lineStringsEq, validPermutation)", 2,
		func(c *Ctx, f *ssa.Function) bool {
			r := rootFunc(f)
			return (r.Signature.Recv() != nil && namedName(r.Signature.Recv().Type()) == "exactEqualsComparator") || FuncName(r) == "geom.validPermutation"
		}, nil)
	registerQuantRule("C03.quantifier", []string{"C03"}, general+"IsSimple of the lineal and point types, the two-distinct-points tests and the cycle search of the ring-touch graph (ringIsNestedInRing is reviewed: the first conclusive vertex decides by design)", 3,
		func(c *Ctx, f *ssa.Function) bool {
			r := rootFunc(f)
			switch {
			case r.Name() == "IsSimple", strings.HasPrefix(r.Name(), "hasAtLeast2DistinctPoints"), r.Name() == "ringIsNestedInRing":
				return pkgOf(r) == "geom"
			case r.Signature.Recv() != nil && namedName(r.Signature.Recv().Type()) == "graph":
				return true
			}
			return false
		}, map[string]string{"geom.ringIsNestedInRing": "reviewed: vertices of the inner ring that lie ON the outer ring are inconclusive and skipped; the first vertex strictly inside or outside decides (both answers inside the loop are by design, and rings of a valid polygon cannot disagree)"})
	registerQuantRule("C20.quantifier", []string{"C20", "C14", "C17", "C12"}, general+"IsEmpty of the collection types (empty iff every member is empty) and IsCW / IsCCW of Polygon, MultiPolygon and GeometryCollection (true iff every ring / member is)", 3,
		func(c *Ctx, f *ssa.Function) bool {
			r := rootFunc(f)
			switch r.Name() {
			case "IsEmpty", "IsCW", "IsCCW":
				return pkgOf(r) == "geom" && r.Signature.Recv() != nil
			}
			return false
		}, nil)
	registerQuantRule("C09.quantifier", []string{"C09", "C20"}, general+"the hasIntersection* kernels of Intersects (a point is in a polygon iff it is in the shell and in NO hole; two collections intersect iff SOME pair of members does)", 3,
		func(c *Ctx, f *ssa.Function) bool {
			r := rootFunc(f)
			return pkgOf(r) == "geom" && strings.HasPrefix(r.Name(), "hasIntersection")
		}, nil)
}

// ---------------------------------------------------------------------------
// C09.segments: the segment/segment intersection kernel
// ---------------------------------------------------------------------------

func init() {
	register(&Rule{
		ID:    "C09.segments",
		Props: []string{"C09", "C01", "C03", "C02"},
		Doc:   "the segment/segment kernel that Intersects, validation and the overlay's noding are built on: line.intersectLine interpreted on every pair of non-degenerate segments with end points on the 3x3 lattice, plus every pair of segments among 4 equally spaced collinear points in 4 directions (5760 configurations) returns exactly the intersection of the two closed segments computed in rational arithmetic — empty when they share no point (collinear but disjoint included), the single common point (to within 4 ulps when it is not a lattice point), or the two end points of the common stretch when they overlap along a line",
		Floor: 1,
		Run:   runC09Segments,
	})
}

type rat struct{ n, d int64 }

func (a rat) norm() rat {
	if a.d < 0 {
		a.n, a.d = -a.n, -a.d
	}
	g := gcd64(abs64(a.n), a.d)
	if g > 1 {
		a.n /= g
		a.d /= g
	}
	return a
}
func gcd64(a, b int64) int64 {
	for b != 0 {
		a, b = b, a%b
	}
	if a == 0 {
		return 1
	}
	return a
}
func abs64(a int64) int64 {
	if a < 0 {
		return -a
	}
	return a
}
func (a rat) f() float64 { return float64(a.n) / float64(a.d) }

// exactSegInter: intersection of closed segments ab and cd with integer end points.
// kind 0 empty, 1 point, 2 stretch (two distinct points)
func exactSegInter(ax, ay, bx, by, cx, cy, dx, dy int64) (kind int, p, q [2]rat) {
	cross := func(ux, uy, vx, vy int64) int64 { return ux*vy - uy*vx }
	rx, ry := bx-ax, by-ay
	sx, sy := dx-cx, dy-cy
	den := cross(rx, ry, sx, sy)
	qpx, qpy := cx-ax, cy-ay
	if den != 0 {
		tn := cross(qpx, qpy, sx, sy)
		un := cross(qpx, qpy, rx, ry)
		// t = tn/den, u = un/den both in [0,1]
		in01 := func(n, d int64) bool {
			if d < 0 {
				n, d = -n, -d
			}
			return n >= 0 && n <= d
		}
		if !in01(tn, den) || !in01(un, den) {
			return 0, p, q
		}
		p = [2]rat{rat{ax*den + tn*rx, den}.norm(), rat{ay*den + tn*ry, den}.norm()}
		return 1, p, p
	}
	if cross(qpx, qpy, rx, ry) != 0 {
		return 0, p, q // parallel, not collinear
	}
	// collinear: project on r
	rr := rx*rx + ry*ry
	t0 := qpx*rx + qpy*ry
	t1 := t0 + sx*rx + sy*ry
	lo, hi := t0, t1
	if lo > hi {
		lo, hi = hi, lo
	}
	if lo < 0 {
		lo = 0
	}
	if hi > rr {
		hi = rr
	}
	if lo > hi {
		return 0, p, q
	}
	p = [2]rat{rat{ax*rr + lo*rx, rr}.norm(), rat{ay*rr + lo*ry, rr}.norm()}
	q = [2]rat{rat{ax*rr + hi*rx, rr}.norm(), rat{ay*rr + hi*ry, rr}.norm()}
	if lo == hi {
		return 1, p, p
	}
	return 2, p, q
}

func runC09Segments(c *Ctx) {
	f := c.P.Func("geom.(line).intersectLine")
	if f == nil {
		c.Errorf("anchor geom.(line).intersectLine does not resolve")
		return
	}
	inl := func(g *ssa.Function) bool {
		if pkgOf(g) != "geom" {
			return false
		}
		switch FuncName(g) {
		case "geom.(line).intersectLine":
			return false
		}
		return true // everything the kernel calls is small arithmetic on XY values
	}
	problem, undec := "", ""
	models := 0
	near := func(got float64, want rat) bool {
		w := want.f()
		if got == w {
			return true
		}
		ulp := math.Nextafter(math.Abs(w), math.Inf(1)) - math.Abs(w)
		return math.Abs(got-w) <= 4*ulp
	}
	var co [8]int64
	var rec func(k int)
	rec = func(k int) {
		if problem != "" || undec != "" {
			return
		}
		if k < 8 {
			for v := int64(0); v < 3; v++ {
				co[k] = v
				rec(k + 1)
			}
			return
		}
		if (co[0] == co[2] && co[1] == co[3]) || (co[4] == co[6] && co[5] == co[7]) {
			return
		}
		models++
		m := &Model{Num: map[string]float64{
			"$0.a.X": float64(co[0]), "$0.a.Y": float64(co[1]), "$0.b.X": float64(co[2]), "$0.b.Y": float64(co[3]),
			"$1.a.X": float64(co[4]), "$1.a.Y": float64(co[5]), "$1.b.X": float64(co[6]), "$1.b.Y": float64(co[7]),
		}, Bool: map[string]bool{}, Missing: map[string]bool{}}
		it := &k4interp{p: c.P, m: m, mem: map[string]k4val{}, inline: inl}
		res, err := it.call(f, []k4val{{kind: 3, s: "$0"}, {kind: 3, s: "$1"}}, nil)
		if err != nil || len(res) != 1 || res[0].kind != 3 {
			undec = fmt.Sprintf("%v %v %s", err, res, trunc(missingList(m)))
			return
		}
		r := res[0].s
		get := func(k string, t types.Type) (k4val, bool) {
			v, e := it.lookup(r+k, t)
			return v, e == nil
		}
		ev, ok0 := get(".empty", boolT)
		ax, ok1 := get(".ptA.X", f64T)
		ay, ok2 := get(".ptA.Y", f64T)
		bx, ok3 := get(".ptB.X", f64T)
		by, ok4 := get(".ptB.Y", f64T)
		if !ok0 {
			undec = "cannot read the result: " + trunc(missingList(m))
			return
		}
		kind, p, q := exactSegInter(co[0], co[1], co[2], co[3], co[4], co[5], co[6], co[7])
		cfg := fmt.Sprintf("(%d %d,%d %d) and (%d %d,%d %d)", co[0], co[1], co[2], co[3], co[4], co[5], co[6], co[7])
		if kind == 0 {
			if !ev.b {
				problem = fmt.Sprintf("segments %s have no common point but the kernel reports an intersection", cfg)
			}
			return
		}
		if ev.b {
			problem = fmt.Sprintf("segments %s meet (at %v %v) but the kernel reports no intersection", cfg, p[0].f(), p[1].f())
			return
		}
		if !(ok1 && ok2 && ok3 && ok4) {
			undec = "cannot read the result points: " + trunc(missingList(m))
			return
		}
		same := func(x, y float64, w [2]rat) bool { return near(x, w[0]) && near(y, w[1]) }
		okRes := (same(ax.f, ay.f, p) && same(bx.f, by.f, q)) || (same(ax.f, ay.f, q) && same(bx.f, by.f, p))
		if !okRes {
			problem = fmt.Sprintf("segments %s intersect in [(%v %v),(%v %v)] but the kernel returns [(%v %v),(%v %v)]", cfg, p[0].f(), p[1].f(), q[0].f(), q[1].f(), ax.f, ay.f, bx.f, by.f)
		}
	}
	rec(0)
	// collinear pairs need four points in a row, which the 3x3 lattice does not have: every pair of
	// segments with end points among 4 equally spaced points of a horizontal, vertical and two diagonal lines
	run8 := rec
	for _, dir := range [][2]int64{{1, 0}, {0, 1}, {1, 1}, {1, -1}} {
		ox, oy := int64(0), int64(0)
		if dir[1] < 0 {
			oy = 3
		}
		for i := int64(0); i < 4; i++ {
			for j := int64(0); j < 4; j++ {
				for k := int64(0); k < 4; k++ {
					for l := int64(0); l < 4; l++ {
						if i == j || k == l {
							continue
						}
						co = [8]int64{ox + i*dir[0], oy + i*dir[1], ox + j*dir[0], oy + j*dir[1], ox + k*dir[0], oy + k*dir[1], ox + l*dir[0], oy + l*dir[1]}
						run8(8)
					}
				}
			}
		}
	}
	reportK4(c, f, "intersection of two segments", undec, problem, fmt.Sprintf("equals the exact intersection (empty / point / common stretch) in all %d lattice configurations", models))
}

// ---------------------------------------------------------------------------
// C08.varint / C07.limits / C04.scantype
// ---------------------------------------------------------------------------

func init() {
	register(&Rule{
		ID:    "C08.varint",
		Props: []string{"C08", "C07"},
		Doc:   "a malformed varint is an error, not a position: wherever geom decodes with encoding/binary.Uvarint / Varint, the byte count n it returns reaches arithmetic (advancing the read position) only where n > 0 has been established — both n == 0 (input too short) and n < 0 (overflow) lead to an error return first; otherwise a truncated TWKB stalls the parser (position never advances) or moves it backwards",
		Floor: 1,
		Run:   runC08Varint,
	})
	register(&Rule{
		ID:    "C07.limits",
		Props: []string{"C07"},
		Doc:   "inadmissible TWKB parameters are rejected before anything is written: MarshalTWKB interpreted on an XYZM geometry with the real TWKBPrecisionZ/M options and the writer opaque returns an error exactly when the XY precision is outside [-8,7] or the Z or M precision outside [0,7] (the 4-bit zig-zag / 3-bit fields of the format) and never builds the writer then, and writeIDList, interpreted with an ID list longer and shorter than the number of members, returns an error and writes nothing",
		Floor: 2,
		Run:   runC07Limits,
	})
	register(&Rule{
		ID:    "C04.scantype",
		Props: []string{"C04"},
		Doc:   "Scan into a concrete type rejects a different geometry type: scanAsType interpreted with the scanned geometry's type and the destination's type equal / different: different types give a non-nil error and the destination is not assigned; equal types assign and return nil; a failed Geometry.Scan is returned as is",
		Floor: 1,
		Run:   runC04ScanType,
	})
}

// intBounds: the tightest constant bounds lo <= v <= hi that the guards at `in` establish for v
func intBounds(in ssa.Instruction, v ssa.Value) (lo, hi int64, hasLo, hasHi bool) {
	for _, g0 := range guardsAt(in) {
		for _, g := range expandGuard(g0) {
			bo, ok := g.Cond.(*ssa.BinOp)
			if !ok {
				continue
			}
			op := bo.Op
			var k int64
			switch {
			case sameQuantity(bo.X, v):
				kk, ok := constInt(stripConv(bo.Y))
				if !ok {
					continue
				}
				k = kk
			case sameQuantity(bo.Y, v):
				kk, ok := constInt(stripConv(bo.X))
				if !ok {
					continue
				}
				k = kk
				switch op {
				case token.LSS:
					op = token.GTR
				case token.GTR:
					op = token.LSS
				case token.LEQ:
					op = token.GEQ
				case token.GEQ:
					op = token.LEQ
				}
			default:
				continue
			}
			if !g.Truth {
				switch op {
				case token.LSS:
					op = token.GEQ
				case token.GTR:
					op = token.LEQ
				case token.LEQ:
					op = token.GTR
				case token.GEQ:
					op = token.LSS
				case token.EQL:
					op = token.NEQ
				case token.NEQ:
					op = token.EQL
				}
			}
			switch op {
			case token.GEQ:
				if !hasLo || k > lo {
					lo, hasLo = k, true
				}
			case token.GTR:
				if !hasLo || k+1 > lo {
					lo, hasLo = k+1, true
				}
			case token.LEQ:
				if !hasHi || k < hi {
					hi, hasHi = k, true
				}
			case token.LSS:
				if !hasHi || k-1 < hi {
					hi, hasHi = k-1, true
				}
			case token.EQL:
				lo, hi, hasLo, hasHi = k, k, true, true
			case token.NEQ:
				// v != 0 together with v >= 0 gives v >= 1: handled by the caller
			}
		}
	}
	return
}

func neqZeroGuarded(in ssa.Instruction, v ssa.Value) bool {
	for _, g0 := range guardsAt(in) {
		for _, g := range expandGuard(g0) {
			bo, ok := g.Cond.(*ssa.BinOp)
			if !ok {
				continue
			}
			var other ssa.Value
			if sameQuantity(bo.X, v) {
				other = bo.Y
			} else if sameQuantity(bo.Y, v) {
				other = bo.X
			} else {
				continue
			}
			if k, ok := constInt(stripConv(other)); !ok || k != 0 {
				continue
			}
			if (bo.Op == token.EQL && !g.Truth) || (bo.Op == token.NEQ && g.Truth) {
				return true
			}
		}
	}
	return false
}

func runC08Varint(c *Ctx) {
	n := 0
	for _, f := range c.P.Funcs {
		if pkgOf(f) != "geom" {
			continue
		}
		fn := FuncName(f)
		eachInstr(f, func(in ssa.Instruction) {
			call, ok := in.(*ssa.Call)
			if !ok {
				return
			}
			cal := staticCallee(call)
			if cal == nil || cal.Pkg == nil || cal.Pkg.Pkg.Path() != "encoding/binary" || (cal.Name() != "Uvarint" && cal.Name() != "Varint") {
				return
			}
			n++
			construct := "byte count of " + cal.Name()
			var cnt *ssa.Extract
			for _, r := range *call.Referrers() {
				if ex, ok := r.(*ssa.Extract); ok && ex.Index == 1 {
					cnt = ex
				}
			}
			if cnt == nil {
				c.Bad(call.Pos(), fn, construct, "the byte count is discarded: a truncated or overflowing varint is taken for a value")
				return
			}
			bad := ""
			uses := 0
			var counts []ssa.Value
			counts = append(counts, cnt)
			// a helper split off the reader receives the count as an argument: judge its uses there
			for _, r := range *cnt.Referrers() {
				if hc, ok := r.(*ssa.Call); ok {
					if h := staticCallee(hc); h != nil && isNewHelper(h) && len(h.Blocks) > 0 {
						for i, a := range hc.Call.Args {
							if a == ssa.Value(cnt) && i < len(h.Params) {
								counts = append(counts, h.Params[i])
							}
						}
					}
				}
			}
			var refs []ssa.Instruction
			for _, cv := range counts {
				refs = append(refs, *cv.Referrers()...)
			}
			for _, r := range refs {
				bo, ok := r.(*ssa.BinOp)
				if !ok {
					if _, isRet := r.(*ssa.Return); isRet {
						bad = "the byte count is returned unchecked at " + c.P.Pos(instrPos(r))
					}
					continue
				}
				switch bo.Op {
				case token.ADD, token.SUB, token.MUL:
				default:
					continue
				}
				uses++
				var cv ssa.Value = cnt
				for _, x := range counts {
					if bo.X == x || bo.Y == x {
						cv = x
					}
				}
				lo, _, hasLo, _ := intBounds(bo, cv)
				pos := hasLo && lo >= 1
				if !pos && hasLo && lo >= 0 && neqZeroGuarded(bo, cv) {
					pos = true
				}
				if !pos {
					bad = "the position is advanced by the byte count at " + c.P.Pos(bo.Pos()) + " where n > 0 is not established (n == 0: input too short, n < 0: overflow)"
				}
			}
			if uses == 0 && bad == "" {
				bad = "the byte count is never used to advance the position"
			}
			c.Check(bad == "", call.Pos(), fn, construct, "used only where n > 0 is established", bad+": a truncated or overlong varint must be an error")
		})
	}
	if n < 1 {
		c.Errorf("only %d varint decodes found, expected >= 1", n)
	}
}

func runC07Limits(c *Ctx) {
	f := c.P.Func("geom.MarshalTWKB")
	if f == nil {
		c.Errorf("anchor geom.MarshalTWKB does not resolve")
		return
	}
	// by interpretation: MarshalTWKB(g, precXY, TWKBPrecisionZ(z), TWKBPrecisionM(m)) on an XYZM geometry with the
	// writer opaque: an error exactly when a precision is outside its range, and then the writer is never built
	{
		pz := c.P.Func("geom.TWKBPrecisionZ")
		pm := c.P.Func("geom.TWKBPrecisionM")
		problem, undec := "", ""
		models := 0
		if pz == nil || pm == nil {
			undec = "the option constructors TWKBPrecisionZ / TWKBPrecisionM do not resolve"
		}
		xyVals := []float64{-9, -8, 0, 7, 8}
		zmVals := []float64{-1, 0, 7, 8}
		for _, xy := range xyVals {
			for _, z := range zmVals {
				for _, mm := range zmVals {
					if problem != "" || undec != "" {
						break
					}
					// vary one parameter at a time around a valid base, plus the all-corners
					odd := 0
					if xy != 0 {
						odd++
					}
					if z != 0 {
						odd++
					}
					if mm != 0 {
						odd++
					}
					if odd > 1 && !(xy != 0 && z != 0 && mm != 0) {
						continue
					}
					models++
					m := &Model{Num: map[string]float64{}, Bool: map[string]bool{}, Missing: map[string]bool{}}
					it := &k4interp{p: c.P, m: m, mem: map[string]k4val{}, inline: func(g *ssa.Function) bool {
						switch FuncName(g) {
						case "geom.(CoordinatesType).Is3D", "geom.(CoordinatesType).IsMeasured":
							return true
						}
						return g.Parent() == pz || g.Parent() == pm
					}}
					oz, e1 := it.call(pz, []k4val{{kind: 2, f: z}}, nil)
					om, e2 := it.call(pm, []k4val{{kind: 2, f: mm}}, nil)
					if e1 != nil || e2 != nil || len(oz) != 1 || len(om) != 1 || oz[0].kind != 7 || om[0].kind != 7 {
						undec = fmt.Sprintf("cannot interpret the option constructors: %v %v", e1, e2)
						break
					}
					it.mem["OPTS[0]"] = oz[0]
					it.mem["OPTS[1]"] = om[0]
					built := 0
					it.onOpaque = func(name string, args []k4val) {
						if strings.HasSuffix(name, "newtwkbWriter") {
							built++
						}
					}
					it.answer = func(key string, isBool bool) (k4val, bool) {
						switch {
						case !isBool && strings.Contains(key, ").CoordinatesType("):
							return k4val{kind: 2, f: 3}, true // XYZM
						case isBool && strings.Contains(key, "writeGeometry(") && strings.Contains(key, "==nil"):
							return k4val{kind: 1, b: true}, true
						case isBool && strings.Contains(key, "writeGeometry(") && strings.Contains(key, "!=nil"):
							return k4val{kind: 1, b: false}, true
						}
						return k4val{}, false
					}
					res, err := it.call(f, []k4val{{kind: 3, s: "$0"}, {kind: 2, f: xy}, {kind: 8, s: "OPTS", ln: 2, cp: 2}}, nil)
					if err != nil || len(res) != 2 {
						undec = fmt.Sprintf("%v %v %s", err, res, trunc(missingList(m)))
						break
					}
					isNil := res[1].String() == "nil"
					bad := xy < -8 || xy > 7 || z < 0 || z > 7 || mm < 0 || mm > 7
					if bad && (isNil || built > 0) {
						problem = fmt.Sprintf("MarshalTWKB with precisions XY=%v Z=%v M=%v (admissible: XY in [-8,7], Z and M in [0,7]) returns error %s and builds the writer %d time(s); expected an error before anything is written", xy, z, mm, res[1].String(), built)
					}
					if !bad && (!isNil || built != 1) {
						problem = fmt.Sprintf("MarshalTWKB with admissible precisions XY=%v Z=%v M=%v returns error %s (writer built %d time(s))", xy, z, mm, res[1].String(), built)
					}
				}
			}
		}
		reportK4(c, f, "precision ranges", undec, problem, fmt.Sprintf("an error exactly when XY is outside [-8,7] or Z/M outside [0,7], before the writer is built (%d models through the real option constructors)", models))
	}
	fn := FuncName(f)
	_ = fn
	// ID count
	g := c.P.Func("geom.(*twkbWriter).writeIDList")
	if g == nil {
		c.Errorf("anchor geom.(*twkbWriter).writeIDList does not resolve")
		return
	}
	problem, undec := "", ""
	for _, t := range []struct{ num, have int }{{2, 3}, {3, 2}, {0, 1}, {2, 2}, {0, 0}} {
		m := &Model{Num: map[string]float64{}, Bool: map[string]bool{"$0.hasIDs": true}, Missing: map[string]bool{}}
		it := &k4interp{p: c.P, m: m, mem: map[string]k4val{}}
		it.mem["$0.idList"] = k4val{kind: 8, s: "IDS", ln: t.have, cp: t.have}
		for i := 0; i < t.have; i++ {
			it.mem[fmt.Sprintf("IDS[%d]", i)] = k4val{kind: 2, f: float64(10 + i)}
		}
		wrote := 0
		it.onOpaque = func(name string, args []k4val) {
			if strings.Contains(name, "writeSignedVarint") || strings.Contains(name, "Varint") {
				wrote++
			}
		}
		res, err := it.call(g, []k4val{{kind: 3, s: "$0"}, {kind: 2, f: float64(t.num)}}, nil)
		if err != nil || len(res) != 1 {
			undec = fmt.Sprintf("%v %v %s", err, res, missingList(m))
			break
		}
		isNil := res[0].String() == "nil"
		if t.num != t.have {
			if isNil || wrote > 0 {
				problem = fmt.Sprintf("with %d IDs supplied for %d members writeIDList returns %s and writes %d IDs; expected an error and nothing written", t.have, t.num, res[0].String(), wrote)
				break
			}
		} else if !isNil || wrote != t.num {
			problem = fmt.Sprintf("with %d IDs for %d members writeIDList returns %s and writes %d IDs; expected nil and %d written", t.have, t.num, res[0].String(), wrote, t.num)
			break
		}
	}
	reportK4(c, g, "ID count must match", undec, problem, "an ID list of the wrong length is an error and nothing is written; a matching one is written in full")
}

func runC04ScanType(c *Ctx) {
	f := c.P.Func("geom.scanAsType")
	if f == nil {
		c.Errorf("anchor geom.scanAsType does not resolve")
		return
	}
	problem, undec := "", ""
	for _, t := range []struct {
		scanErr bool
		tg, td  float64
	}{{false, 1, 1}, {false, 1, 2}, {false, 0, 6}, {false, 3, 3}, {true, 1, 1}} {
		m := &Model{Num: map[string]float64{}, Bool: map[string]bool{}, Missing: map[string]bool{}}
		it := &k4interp{p: c.P, m: m, mem: map[string]k4val{}}
		assigned := 0
		it.onOpaque = func(name string, args []k4val) {
			if strings.HasSuffix(name, "assignToConcrete") {
				assigned++
			}
		}
		typeCalls := 0
		it.answer = func(key string, isBool bool) (k4val, bool) {
			switch {
			case isBool && strings.Contains(key, ").Scan(") && strings.Contains(key, "==nil"):
				return k4val{kind: 1, b: !t.scanErr}, true
			// the body of Geometry.Scan written out (or moved into a helper): src holds bytes, and
			// UnmarshalWKB is what can fail
			case isBool && strings.HasSuffix(key, ".([]byte)#1"):
				return k4val{kind: 1, b: true}, true
			case isBool && strings.Contains(key, "UnmarshalWKB(") && strings.HasSuffix(key, "==nil)"):
				return k4val{kind: 1, b: !t.scanErr}, true
			case isBool && strings.Contains(key, "UnmarshalWKB(") && strings.HasSuffix(key, "!=nil)"):
				return k4val{kind: 1, b: t.scanErr}, true
			case !isBool && strings.Contains(key, "(Geometry).Type("):
				return k4val{kind: 2, f: t.tg}, true
			case !isBool && strings.Contains(key, "Type("):
				typeCalls++
				return k4val{kind: 2, f: t.td}, true
			}
			return k4val{}, false
		}
		res, err := it.call(f, []k4val{{kind: 3, s: "$0"}, {kind: 3, s: "$1"}}, nil)
		if err != nil || len(res) != 1 {
			undec = fmt.Sprintf("%v %v %s", err, res, trunc(missingList(m)))
			break
		}
		isNil := res[0].String() == "nil"
		if !isNil {
			// the value returned may be the (nil) error of the Scan call itself,
			// handed back through a named result
			if a, ok := it.answer("("+res[0].String()+"==nil)", true); ok && a.kind == 1 && a.b {
				isNil = true
			}
		}
		switch {
		case t.scanErr:
			if isNil || assigned > 0 {
				problem = "a failed Geometry.Scan is not returned (or the destination is assigned anyway)"
			}
		case t.tg != t.td:
			if isNil || assigned > 0 {
				problem = fmt.Sprintf("scanning a geometry of type %v into a destination of type %v returns %s and assigns %d time(s); expected an error and no assignment", t.tg, t.td, res[0].String(), assigned)
			}
		default:
			if !isNil || assigned != 1 {
				problem = fmt.Sprintf("scanning a geometry of the destination's own type returns %s and assigns %d time(s); expected nil and one assignment", res[0].String(), assigned)
			}
		}
		if problem != "" {
			break
		}
	}
	reportK4(c, f, "type of the scanned geometry", undec, problem, "a different type is rejected without touching the destination; the same type is assigned")
}

// ---------------------------------------------------------------------------
// C16.seqtype
// ---------------------------------------------------------------------------

func init() {
	register(&Rule{
		ID:    "C16.seqtype",
		Props: []string{"C16"},
		Doc:   "coordinate lists handed out carry the geometry's coordinates type: in every method of the seven geometry types that returns a Sequence and builds it with NewSequence (DumpCoordinates, Coordinates of MultiPoint, …), the coordinates-type argument is the receiver's own type (its ctype field, its CoordinatesType(), or that of its own sequence/coordinates) — never a constant or another value",
		Floor: 3,
		Run:   runC16SeqType,
	})
}

func rootedAtReceiver(v ssa.Value, recv ssa.Value, d int) bool {
	if d > 8 || v == nil {
		return false
	}
	if v == recv {
		return true
	}
	switch x := v.(type) {
	case *ssa.UnOp:
		if x.Op == token.MUL {
			return rootedAtReceiver(x.X, recv, d+1)
		}
	case *ssa.FieldAddr:
		return rootedAtReceiver(x.X, recv, d+1)
	case *ssa.Field:
		return rootedAtReceiver(x.X, recv, d+1)
	case *ssa.Alloc:
		if st := uniqueStore(x); st != nil {
			return rootedAtReceiver(st, recv, d+1)
		}
	case *ssa.Call:
		// an accessor of the receiver (its sequence, its coordinates)
		if cal := staticCallee(x); cal != nil && len(x.Call.Args) >= 1 && cal.Signature.Recv() != nil {
			return rootedAtReceiver(x.Call.Args[0], recv, d+1)
		}
	case *ssa.Extract:
		return rootedAtReceiver(x.Tuple, recv, d+1)
	}
	return false
}

func runC16SeqType(c *Ctx) {
	n := 0
	for _, f := range c.P.Funcs {
		if pkgOf(f) != "geom" || f.Signature.Recv() == nil || len(f.Blocks) == 0 || f.Parent() != nil {
			continue
		}
		rn := namedName(f.Signature.Recv().Type())
		isGeomType := false
		for _, t := range sevenTypes {
			if t == rn {
				isGeomType = true
			}
		}
		if !isGeomType {
			continue
		}
		res := f.Signature.Results()
		if res.Len() != 1 || namedName(res.At(0).Type()) != "Sequence" {
			continue
		}
		fn := FuncName(f)
		recv := ssa.Value(f.Params[0])
		k := 0
		eachCall(f, func(ci ssa.CallInstruction) {
			call, ok := ci.(*ssa.Call)
			if !ok || calleeName(call) != "geom.NewSequence" || len(call.Call.Args) != 2 {
				return
			}
			n++
			k++
			t := call.Call.Args[1]
			good := false
			switch x := t.(type) {
			case *ssa.Call:
				if cal := staticCallee(x); cal != nil && cal.Name() == "CoordinatesType" && len(x.Call.Args) == 1 && rootedAtReceiver(x.Call.Args[0], recv, 0) {
					good = true
				}
			case *ssa.UnOp:
				if fa, ok := x.X.(*ssa.FieldAddr); ok && x.Op == token.MUL {
					_, fld := fieldOfAddr(fa)
					if (fld == "ctype" || fld == "Type") && rootedAtReceiver(fa.X, recv, 0) {
						good = true
					}
				}
			case *ssa.Field:
				_, fld := fieldOfField(x)
				if (fld == "ctype" || fld == "Type") && rootedAtReceiver(x.X, recv, 0) {
					good = true
				}
			}
			c.Check(good, call.Pos(), fn, fmt.Sprintf("NewSequence #%d", k), "typed by the receiver's coordinates type", "the Sequence returned is typed by a value that is not the receiver's own coordinates type (a constant or something else): Z/M of the listed coordinates are dropped or misread")
		})
	}
	if n < 3 {
		c.Errorf("only %d Sequence constructions found in Sequence-returning methods, expected >= 3", n)
	}
}

// isValuePlusPositive: e is v + k (or k + v) with a constant k >= 1
func isValuePlusPositive(e, v ssa.Value) bool {
	bo, ok := stripConv(e).(*ssa.BinOp)
	if !ok || bo.Op != token.ADD {
		return false
	}
	if k, ok := constInt(stripConv(bo.Y)); ok && k >= 1 && sameQuantity(bo.X, v) {
		return true
	}
	if k, ok := constInt(stripConv(bo.X)); ok && k >= 1 && sameQuantity(bo.Y, v) {
		return true
	}
	return false
}

// exploration: counting loops and their initial values
type countLoop struct {
	h    *ssa.BasicBlock
	phi  *ssa.Phi
	init ssa.Value
	loop map[*ssa.BasicBlock]bool
	cell *ssa.Alloc // set instead of phi when the counter is a captured variable
}

func countingLoops(f *ssa.Function) []countLoop {
	var out []countLoop
	for _, h := range f.Blocks {
		loop := naturalLoop(h)
		if loop == nil {
			continue
		}
		for _, in := range h.Instrs {
			phi, ok := in.(*ssa.Phi)
			if !ok {
				break
			}
			if bt, ok := phi.Type().Underlying().(*types.Basic); !ok || bt.Info()&types.IsInteger == 0 {
				continue
			}
			var init ssa.Value
			step := false
			for k, e := range phi.Edges {
				if loop[h.Preds[k]] {
					if bo, ok := e.(*ssa.BinOp); ok && bo.Op == token.ADD && bo.X == ssa.Value(phi) {
						if kc, ok := constInt(bo.Y); ok && kc == 1 {
							step = true
						}
					}
				} else {
					init = e
				}
			}
			if step && init != nil {
				out = append(out, countLoop{h, phi, init, loop, nil})
			}
		}
		// a counter that lives in memory because a closure captures it: `i` is a cell, initialised before the
		// loop and incremented by 1 inside it, and the header tests a load of it
		if len(h.Instrs) > 0 {
			if ifi, ok := h.Instrs[len(h.Instrs)-1].(*ssa.If); ok {
				if bo, ok := ifi.Cond.(*ssa.BinOp); ok {
					for _, opnd := range []ssa.Value{bo.X, bo.Y} {
						ld, ok := opnd.(*ssa.UnOp)
						if !ok || ld.Op != token.MUL {
							continue
						}
						al, ok := ld.X.(*ssa.Alloc)
						if !ok || al.Referrers() == nil {
							continue
						}
						if bt, ok := deref(al.Type()).Underlying().(*types.Basic); !ok || bt.Info()&types.IsInteger == 0 {
							continue
						}
						var init ssa.Value
						step, other := false, false
						for _, r := range *al.Referrers() {
							st, ok := r.(*ssa.Store)
							if !ok || st.Addr != ssa.Value(al) {
								continue
							}
							if loop[st.Block()] {
								if add, ok := st.Val.(*ssa.BinOp); ok && add.Op == token.ADD {
									if l2, ok := add.X.(*ssa.UnOp); ok && l2.Op == token.MUL && l2.X == ssa.Value(al) {
										if kc, ok := constInt(add.Y); ok && kc == 1 {
											step = true
											continue
										}
									}
								}
								other = true
							} else if init == nil {
								init = st.Val
							} else {
								other = true
							}
						}
						if step && init != nil && !other {
							out = append(out, countLoop{h, nil, init, loop, al})
						}
					}
				}
			}
		}
	}
	return out
}

func dumpCountLoops(c *Ctx) {
	for _, f := range c.P.Funcs {
		if !c.P.InRepo(f) {
			continue
		}
		for _, cl := range countingLoops(f) {
			k, isC := constInt(cl.init)
			if isC && k == 0 {
				continue
			}
			pos := firstPos(cl.h)
			for b := range cl.loop {
				if !pos.IsValid() {
					pos = firstPos(b)
				}
			}
			fmt.Printf("%s init=%v const=%v %s\n", FuncName(f), cl.init, isC, c.P.Pos(pos))
		}
	}
}

// ---------------------------------------------------------------------------
// C20.fullrange: loops over elements start at the first element
// ---------------------------------------------------------------------------

var loopsFromOne = map[string]string{
	"geom.(LineString).PointOnSurface":           "candidates are the interior control points: the first and last are excluded by design",
	"geom.(MultiLineString).PointOnSurface":      "candidates are the interior control points of each member: first and last excluded by design",
	"geom.addLineStringInteractions":             "looks at the triple (i-1, i, i+1): interior vertices only",
	"geom.centroidOfRing":                        "triangle fan from vertex 0: triangles (0, i, i+1)",
	"geom.densify":                               "inner loop inserts the points strictly between two vertices; the start vertex is copied before it",
	"geom.firstAndLastLines":                     "compares vertex i with vertex i-1",
	"geom.hasAtLeast2DistinctPointsInSeq":        "compares every later point with point 0",
	"geom.leftmostThenLowestIndex":               "the running best starts as element 0",
	"geom.rightmostThenHighestIndex":             "the running best starts as element 0",
	"geom.sortAndUniquifyFloats":                 "compares element i with element i-1; element 0 is always kept",
	"geom.uniquifyGroupedXYs":                    "compares element i with element i-1; element 0 is always kept",
	"rtree.calculateBound":                       "the bound starts as the box of entry 0",
	"geom.(exactEqualsComparator).lineStringsEq": "rotation offsets 1..n-1 of a ring; offset 0 is the identity comparison made before the loop",
}

func init() {
	register(&Rule{
		ID:    "C20.fullrange",
		Props: []string{"C20", "C03", "C09", "C01", "C16", "C17", "C14", "C13"},
		Doc:   "loops over the elements of a geometry start at the first element: every counting loop (i := c; …; i++) in geom, rtree and carto starts at 0 (a `for range` at its hidden -1), except the reviewed loops that start at 1 for a stated reason (they pair element i with i-1, or treat element 0 before the loop) — and those start at exactly 1. A loop that quietly starts at 1 (or 2) skips the first point, segment, ring or member: the verdict of a validation, an intersection test or a conversion then ignores it. A start that is a 0-or-k variable carried round an enclosing loop without a reset (raised once, it stays raised) is reported likewise",
		Floor: 60,
		Run:   runC20FullRange,
	})
}

// carriedConstStart: the start value of a counting loop resolves, through phis only, to integer
// constants; mx is the largest, carried says one of those phis sits at the header of a loop that
// encloses this one (the value survives from one pass of that loop to the next).
func carriedConstStart(cl countLoop) (mx int64, carried, ok bool) {
	seen := map[ssa.Value]bool{}
	ok = true
	var walk func(v ssa.Value)
	walk = func(v ssa.Value) {
		if !ok || seen[v] {
			return
		}
		seen[v] = true
		if k, isC := constInt(v); isC {
			if k > mx {
				mx = k
			}
			return
		}
		phi, isPhi := v.(*ssa.Phi)
		if !isPhi {
			ok = false
			return
		}
		if outer := naturalLoop(phi.Block()); outer != nil && phi.Block() != cl.h && outer[cl.h] {
			carried = true
		}
		for _, e := range phi.Edges {
			walk(e)
		}
	}
	walk(cl.init)
	return
}

func runC20FullRange(c *Ctx) {
	n := 0
	for _, f := range c.P.Funcs {
		if !c.P.InRepo(f) || strings.Contains(c.P.File(f.Pos()), "dcel_debug.go") {
			continue
		}
		fn := FuncName(rootFunc(f))
		k := 0
		for _, cl := range countingLoops(f) {
			init, isC := constInt(cl.init)
			if !isC {
				// A start that is a choice between constants (start := 0; if … { start = 1 }) whose
				// choice is carried round an ENCLOSING loop: once raised on one pass it stays raised on
				// every later pass, so those passes skip their first element(s) unconditionally.
				if mx, carried, ok := carriedConstStart(cl); ok && mx > 0 && carried {
					n++
					k++
					c.Bad(firstPos(cl.h), FuncName(f), fmt.Sprintf("counting loop #%d", loopOrdinal(f, cl.h)), fmt.Sprintf("the loop's start is a variable that is 0 or %d and is carried from one pass of the enclosing loop to the next without being reset: after the first pass that raises it, every later pass starts at %d and never looks at its first element(s) (point, segment, ring, member)", mx, mx))
				}
				continue // starts where another loop or computation left off: not this rule's business
			}
			n++
			k++
			pos := firstPos(cl.h)
			for _, b := range f.Blocks {
				if !pos.IsValid() && cl.loop[b] {
					pos = firstPos(b)
				}
			}
			construct := fmt.Sprintf("counting loop #%d", loopOrdinal(f, cl.h))
			if init == 0 || init == -1 {
				c.Triv(pos, FuncName(f), construct, "starts at the first element")
				continue
			}
			if _, ok := loopsFromOne[fn]; !ok && isNewHelper(rootFunc(f)) {
				// a helper split off a reviewed function inherits its reason
				var up func(g *ssa.Function, d int) string
				up = func(g *ssa.Function, d int) string {
					if d > 3 {
						return ""
					}
					for _, cs := range c.P.callSitesOf(g) {
						r := rootFunc(cs.Parent())
						if _, ok := loopsFromOne[FuncName(r)]; ok {
							return FuncName(r)
						}
						if isNewHelper(r) && r != g {
							if x := up(r, d+1); x != "" {
								return x
							}
						}
					}
					return ""
				}
				if from := up(rootFunc(f), 0); from != "" {
					fn = from
				}
			}
			if why, ok := loopsFromOne[fn]; ok {
				c.Check(init == 1, pos, FuncName(f), construct, "starts at 1: "+why, fmt.Sprintf("this reviewed loop starts at 1 because %s — it now starts at %d, skipping element(s)", why, init))
				continue
			}
			// an unreviewed loop: accept only the two idioms, by their shape
			usesPrev := false
			for b := range cl.loop {
				for _, in := range b.Instrs {
					if bo, ok := in.(*ssa.BinOp); ok {
						isCounter := cl.phi != nil && bo.X == ssa.Value(cl.phi)
						if ld, ok := bo.X.(*ssa.UnOp); ok && cl.cell != nil && ld.Op == token.MUL && ld.X == ssa.Value(cl.cell) {
							isCounter = true
						}
						if bo.Op == token.SUB && isCounter {
							if kc, ok := constInt(bo.Y); ok && kc == init {
								usesPrev = true
							}
						}
					}
				}
			}
			if usesPrev {
				c.OK(pos, FuncName(f), construct, fmt.Sprintf("starts at %d and pairs element i with element i-%d", init, init))
				continue
			}
			if init == 1 && counterGoesToGetLine(cl) {
				c.OK(pos, FuncName(f), construct, "starts at 1 and hands the counter to getLine, which pairs point i with point i-1 and has no segment 0 (C03.seglines)")
				continue
			}
			if init == 1 && firstElementReadBefore(cl.h) && !counterIndexesFromZero(cl) {
				c.OK(pos, FuncName(f), construct, "starts at 1 after element 0 has been read on its own before the loop")
				continue
			}
			c.Bad(pos, FuncName(f), construct, fmt.Sprintf("the loop starts at %d, not at the first element, and is not one of the reviewed loops that treat the first element separately: the first %d element(s) (point, segment, ring, member) are never looked at", init, init))
		}
	}
	if n < 60 {
		c.Errorf("only %d counting loops found, expected >= 60", n)
	}
}

// ---------------------------------------------------------------------------
// C07.bboxheader: the header-only envelope reader
// ---------------------------------------------------------------------------

func init() {
	register(&Rule{
		ID:    "C07.bboxheader",
		Props: []string{"C07"},
		Doc:   "the header-only bounding-box reader agrees with the header's layout: parseBBoxHeader interpreted for the four dimension combinations on a modelled header (min, delta) per dimension with a different scaling per dimension: X and Y ranges are (min, min+delta) of dimensions 0 and 1, the Z range that of dimension 2 when Z is present, the M range that of dimension 3 (with Z) or 2 (without), each unscaled with ITS OWN dimension's scaling; no range is reported for an absent dimension, and without the bbox flag the envelope is empty",
		Floor: 1,
		Run:   runC07BBoxHeader,
	})
}

func runC07BBoxHeader(c *Ctx) {
	f := c.P.Func("geom.(*twkbParser).parseBBoxHeader")
	if f == nil {
		c.Errorf("anchor geom.(*twkbParser).parseBBoxHeader does not resolve")
		return
	}
	problem, undec := "", ""
	models := 0
	type pset struct {
		bbox, scal []float64
		xy         []float64  // minX, minY, maxX, maxY
		z, m3, m2  [2]float64 // Z range; M range with Z; M range without Z
	}
	psets := []pset{
		{[]float64{3, 5, 14, 6, 44, 12, 136, 48}, []float64{1, 2, 4, 8}, []float64{3, 7, 8, 10}, [2]float64{11, 14}, [2]float64{17, 23}, [2]float64{11, 14}},
		// decimal scalings: max must be unscale(min+delta) — the integer sum, divided once — not unscale(min)+unscale(delta), which is a different float (0.1+0.7 != 0.8)
		{[]float64{1, 7, 1, 7, 1, 7, 1, 7}, []float64{10, 10, 10, 10}, []float64{0.1, 0.1, 0.8, 0.8}, [2]float64{0.1, 0.8}, [2]float64{0.1, 0.8}, [2]float64{0.1, 0.8}},
	}
	for _, ps := range psets {
		bbox, scal := ps.bbox, ps.scal
		for mask := 0; mask < 8 && problem == "" && undec == ""; mask++ {
			hasZ, hasM, hasBBox := mask&1 != 0, mask&2 != 0, mask&4 != 0
			models++
			m := &Model{Num: map[string]float64{}, Bool: map[string]bool{"$0.hasZ": hasZ, "$0.hasM": hasM, "$0.hasBBox": hasBBox}, Missing: map[string]bool{}}
			it := &k4interp{p: c.P, m: m, mem: map[string]k4val{}, inline: func(g *ssa.Function) bool {
				switch FuncName(g) {
				case "geom.(*twkbParser).unscale", "geom.NewInterval":
					return true
				}
				return false
			}}
			dims := 2
			if hasZ {
				dims++
			}
			if hasM {
				dims++
			}
			it.mem["$0.bbox"] = k4val{kind: 8, s: "BB", ln: 2 * dims, cp: 2 * dims}
			for i := 0; i < 2*dims; i++ {
				it.mem[fmt.Sprintf("BB[%d]", i)] = k4val{kind: 2, f: bbox[i]}
			}
			for d := 0; d < 4; d++ {
				m.Num[fmt.Sprintf("$0.scalings[%d]", d)] = scal[d]
			}
			var envArgs []float64
			envCalls := 0
			it.onOpaque = func(name string, args []k4val) {
				if !strings.HasSuffix(name, "NewEnvelope") {
					return
				}
				envCalls++
				for _, a := range args {
					if a.kind != 8 {
						continue
					}
					for i := 0; i < a.ln; i++ {
						for _, fld := range []string{"X", "Y"} {
							v, e := it.lookup(fmt.Sprintf("%s[%d].%s", a.s, a.off+i, fld), f64T)
							if e == nil && v.kind == 2 {
								envArgs = append(envArgs, v.f)
							}
						}
					}
				}
			}
			it.answer = func(key string, isBool bool) (k4val, bool) {
				if isBool && strings.Contains(key, "parseHeaders(") {
					return k4val{kind: 1, b: strings.Contains(key, "==nil")}, true
				}
				return k4val{}, false
			}
			res, err := it.call(f, []k4val{{kind: 3, s: "$0"}}, nil)
			if err != nil || len(res) != 2 || res[0].kind != 3 {
				undec = fmt.Sprintf("%v %v %s", err, res, trunc(missingList(m)))
				break
			}
			cfg := fmt.Sprintf("hasZ=%v hasM=%v hasBBox=%v", hasZ, hasM, hasBBox)
			if res[1].String() != "nil" {
				problem = cfg + ": returns an error although the headers parsed"
				break
			}
			r := res[0].s
			rng := func(name string) (lo, hi float64, ne bool, ok bool) {
				if r == "zero" {
					return 0, 0, false, true
				}
				a, e1 := it.lookup(r+"."+name+".min", f64T)
				b, e2 := it.lookup(r+"."+name+".max", f64T)
				n, e3 := it.lookup(r+"."+name+".nonEmpty", boolT)
				if e3 != nil {
					return 0, 0, false, false
				}
				if !n.b {
					return 0, 0, false, true
				}
				return a.f, b.f, true, e1 == nil && e2 == nil
			}
			if !hasBBox {
				if envCalls != 0 {
					problem = cfg + ": an envelope is built although the header has no bounding box"
				}
				continue
			}
			// X/Y
			want := ps.xy // (minX, minY), (maxX, maxY)
			if envCalls != 1 || len(envArgs) != 4 {
				undec = fmt.Sprintf("%s: the XY envelope is not built by one NewEnvelope call over two points (%d calls, %v)", cfg, envCalls, envArgs)
				break
			}
			// order of the two points is irrelevant to NewEnvelope
			okXY := (envArgs[0] == want[0] && envArgs[1] == want[1] && envArgs[2] == want[2] && envArgs[3] == want[3]) ||
				(envArgs[2] == want[0] && envArgs[3] == want[1] && envArgs[0] == want[2] && envArgs[1] == want[3])
			if !okXY {
				problem = fmt.Sprintf("%s: XY envelope built from %v, expected corners (%v %v) and (%v %v) (= unscale(min) and unscale(min+delta) of dimensions 0 and 1, each with its own scaling, the sum taken on the integers)", cfg, envArgs, want[0], want[1], want[2], want[3])
				break
			}
			zlo, zhi, zne, ok1 := rng("ZRange")
			mlo, mhi, mne, ok2 := rng("MRange")
			if !ok1 || !ok2 {
				undec = cfg + ": cannot read the Z/M ranges of the result: " + trunc(missingList(m))
				break
			}
			wz := ps.z
			wm := ps.m3
			if !hasZ {
				wm = ps.m2
			}
			if zne != hasZ || (hasZ && (zlo != wz[0] || zhi != wz[1])) {
				problem = fmt.Sprintf("%s: Z range is (%v %v present=%v), expected (%v %v present=%v)", cfg, zlo, zhi, zne, wz[0], wz[1], hasZ)
				break
			}
			if mne != hasM || (hasM && (mlo != wm[0] || mhi != wm[1])) {
				problem = fmt.Sprintf("%s: M range is (%v %v present=%v), expected (%v %v present=%v)", cfg, mlo, mhi, mne, wm[0], wm[1], hasM)
				break
			}
		}
	}
	reportK4(c, f, "ranges from (min, delta) pairs", undec, problem, fmt.Sprintf("every range is (min, min+delta) of its own dimension, unscaled by that dimension's scaling (%d models)", models))
}

// ---------------------------------------------------------------------------
// C06.lengths
// ---------------------------------------------------------------------------

func init() {
	register(&Rule{
		ID:    "C06.lengths",
		Props: []string{"C06", "C08"},
		Doc:   "the 2D/3D decision of a GeoJSON document sees every position: detectCoordinatesLengths records each position it visits as hasLength[len(position)] = true (every update of the map stores the constant true under a key that is the length of a coordinate slice), there is one such update for each of the six coordinate-carrying node types, and a position shorter than 2 (except the empty Point) is an error",
		Floor: 3,
		Run:   runC06Lengths,
	})
}

func runC06Lengths(c *Ctx) {
	f := c.P.Func("geom.detectCoordinatesLengths")
	if f == nil {
		c.Errorf("anchor geom.detectCoordinatesLengths does not resolve")
		return
	}
	fn := FuncName(f)
	n := 0
	var fs []*ssa.Function
	for _, g := range withNewHelpers(f) {
		fs = append(fs, g)
		for _, a := range allAnon(g) {
			fs = append(fs, a)
			for _, h := range withNewHelpers(a)[1:] {
				fs = append(fs, h)
			}
		}
	}
	inGroup := map[*ssa.Function]bool{}
	for _, g := range fs {
		inGroup[g] = true
	}
	goodRecord := map[*ssa.MapUpdate]bool{}
	defer func() { runC06LengthsCoverage(c, f, fs, inGroup, goodRecord) }()
	for _, g := range fs {
		eachInstr(g, func(in ssa.Instruction) {
			mu, ok := in.(*ssa.MapUpdate)
			if !ok {
				return
			}
			mt, ok := mu.Map.Type().Underlying().(*types.Map)
			if !ok {
				return
			}
			if kb, ok := mt.Key().Underlying().(*types.Basic); !ok || kb.Kind() != types.Int {
				return
			}
			if vb, ok := mt.Elem().Underlying().(*types.Basic); !ok || vb.Kind() != types.Bool {
				return
			}
			n++
			construct := fmt.Sprintf("record of a position length #%d", n)
			b, isB := constBool(mu.Value)
			keyIsLen := false
			if call, ok := stripConv(mu.Key).(*ssa.Call); ok {
				if bi, ok := call.Call.Value.(*ssa.Builtin); ok && bi.Name() == "len" {
					if _, isSlice := call.Call.Args[0].Type().Underlying().(*types.Slice); isSlice {
						keyIsLen = true
					}
				}
			}
			goodRecord[mu] = isB && b && keyIsLen
			c.Check(isB && b && keyIsLen, mu.Pos(), fn, construct, "hasLength[len(position)] = true", "a visited position is not recorded as hasLength[len(position)] = true: the 2D/3D decision of the document no longer sees it (mixed 2D/3D input may decode as 3D, all-3D input as 2D)")
		})
	}
	if n < 1 {
		c.Errorf("no position-length record found in detectCoordinatesLengths")
	}
}

// runC06LengthsCoverage: each coordinate-carrying case of the node type switch
// reaches a record of position lengths, directly or through closures / new
// helpers / the function itself.
func runC06LengthsCoverage(c *Ctx, f *ssa.Function, fs []*ssa.Function, inGroup map[*ssa.Function]bool, good map[*ssa.MapUpdate]bool) {
	records := map[*ssa.Function]bool{}
	for changed := true; changed; {
		changed = false
		for _, g := range fs {
			if records[g] {
				continue
			}
			eachInstr(g, func(in ssa.Instruction) {
				if mu, ok := in.(*ssa.MapUpdate); ok && good[mu] {
					records[g] = true
				}
				if ci, ok := in.(ssa.CallInstruction); ok {
					if cal := staticCallee(ci); cal != nil && cal != g && inGroup[cal] && records[cal] {
						records[g] = true
					}
				}
			})
			if records[g] {
				changed = true
			}
		}
	}
	want := map[string]bool{"geojsonPoint": true, "geojsonLineString": true, "geojsonPolygon": true, "geojsonMultiPoint": true, "geojsonMultiLineString": true, "geojsonMultiPolygon": true}
	fn := FuncName(f)
	eachInstr(f, func(in ssa.Instruction) {
		ta, ok := in.(*ssa.TypeAssert)
		if !ok || !ta.CommaOk {
			return
		}
		name := namedName(ta.AssertedType)
		if !want[name] {
			return
		}
		var entry *ssa.BasicBlock
		for _, r := range *ta.Referrers() {
			if ex, ok := r.(*ssa.Extract); ok && ex.Index == 1 {
				for _, r2 := range *ex.Referrers() {
					if ifi, ok := r2.(*ssa.If); ok {
						entry = ifi.Block().Succs[0]
					}
				}
			}
		}
		if entry == nil {
			return
		}
		found := false
		seen := map[*ssa.BasicBlock]bool{entry: true}
		work := []*ssa.BasicBlock{entry}
		for len(work) > 0 {
			b := work[len(work)-1]
			work = work[:len(work)-1]
			for _, bi := range b.Instrs {
				if mu, ok := bi.(*ssa.MapUpdate); ok && good[mu] {
					found = true
				}
				if ci, ok := bi.(ssa.CallInstruction); ok {
					if cal := staticCallee(ci); cal != nil && inGroup[cal] && records[cal] {
						found = true
					}
				}
			}
			for _, sb := range b.Succs {
				if !seen[sb] {
					seen[sb] = true
					work = append(work, sb)
				}
			}
		}
		c.Check(found, ta.Pos(), fn, "positions of a "+name+" node are recorded", "the case reaches a hasLength[len(position)] = true record", "the "+name+" case of the node type switch records no position length: the 2D/3D decision of the document does not see this node's positions (a 2-element position next to 3-element ones is then read out of range)")
	})
}

// everAccumulated: the divisor, when it is a local or captured variable, is stored to somewhere other than its declaration
func everAccumulated(v ssa.Value) bool {
	v = stripConv(v)
	u, ok := v.(*ssa.UnOp)
	if !ok || u.Op != token.MUL {
		return true // a phi or a helper result: accumulated by construction
	}
	var cell ssa.Value = u.X
	if fv, ok := cell.(*ssa.FreeVar); ok {
		// find the binding in the parent
		fn := fv.Parent()
		par := fn.Parent()
		if par == nil {
			return true
		}
		idx := -1
		for i, x := range fn.FreeVars {
			if x == fv {
				idx = i
			}
		}
		found := false
		eachInstr(par, func(in ssa.Instruction) {
			if mc, ok := in.(*ssa.MakeClosure); ok && mc.Fn == ssa.Value(fn) && idx >= 0 && idx < len(mc.Bindings) {
				cell = mc.Bindings[idx]
				found = true
			}
		})
		if !found {
			return true
		}
	}
	al, ok := cell.(*ssa.Alloc)
	if !ok {
		return true
	}
	stores := 0
	var count func(x ssa.Value)
	count = func(x ssa.Value) {
		if x.Referrers() == nil {
			return
		}
		for _, r := range *x.Referrers() {
			switch y := r.(type) {
			case *ssa.Store:
				if y.Addr == x {
					if k, ok := y.Val.(*ssa.Const); ok && k.Value != nil {
						if f, ok := constantFloat(k); ok && f == 0 {
							continue
						}
						if i, ok := constInt(k); ok && i == 0 {
							continue
						}
					}
					stores++
				}
			case ssa.CallInstruction:
				// the address is handed to a function: it may be written there
				for _, a := range y.Common().Args {
					if a == x {
						stores++
					}
				}
			case *ssa.MakeClosure:
				// stores through the captured variable in the closure
				if fnc, ok := y.Fn.(*ssa.Function); ok {
					for i, b := range y.Bindings {
						if b == x && i < len(fnc.FreeVars) {
							count(fnc.FreeVars[i])
						}
					}
				}
			}
		}
	}
	count(al)
	return stores > 0
}

// counterGoesToGetLine: inside the loop the counter itself is the index handed to getLine.
func counterGoesToGetLine(cl countLoop) bool {
	found := false
	for b := range cl.loop {
		for _, in := range b.Instrs {
			call, ok := in.(*ssa.Call)
			if !ok || calleeName(call) != "geom.getLine" || len(call.Call.Args) != 2 {
				continue
			}
			a := call.Call.Args[1]
			if cl.phi != nil && a == ssa.Value(cl.phi) {
				found = true
			}
			if ld, ok := a.(*ssa.UnOp); ok && cl.cell != nil && ld.Op == token.MUL && ld.X == ssa.Value(cl.cell) {
				found = true
			}
		}
	}
	return found
}

// counterIndexesFromZero: inside the loop the counter itself (not counter-1) is
// handed to InteriorRingN, whose numbering starts at 0 with the first hole:
// having read the exterior ring before the loop does not excuse starting at 1.
func counterIndexesFromZero(cl countLoop) bool {
	found := false
	for b := range cl.loop {
		for _, in := range b.Instrs {
			call, ok := in.(*ssa.Call)
			if !ok {
				continue
			}
			cal := staticCallee(call)
			if cal == nil || cal.Name() != "InteriorRingN" || len(call.Call.Args) != 2 {
				continue
			}
			a := call.Call.Args[1]
			if cl.phi != nil && a == ssa.Value(cl.phi) {
				found = true
			}
			if ld, ok := a.(*ssa.UnOp); ok && cl.cell != nil && ld.Op == token.MUL && ld.X == ssa.Value(cl.cell) {
				found = true
			}
		}
	}
	return found
}

// firstElementReadBefore: a block dominating the loop header reads element 0 of something
// (x[0], Get(0), GetXY(0), ExteriorRing()) or slices from 1 (x[1:])
func firstElementReadBefore(h *ssa.BasicBlock) bool {
	found := false
	for _, b := range h.Parent().Blocks {
		if b == h || !b.Dominates(h) {
			continue
		}
		for _, in := range b.Instrs {
			switch x := in.(type) {
			case *ssa.IndexAddr:
				if k, ok := constInt(x.Index); ok && k == 0 {
					found = true
				}
			case *ssa.Index:
				if k, ok := constInt(x.Index); ok && k == 0 {
					found = true
				}
			case *ssa.Slice:
				if x.Low != nil {
					if k, ok := constInt(x.Low); ok && k == 1 {
						found = true
					}
				}
			case *ssa.Call:
				// an accessor held in a variable (`nthPt := seq.GetXY`, or a literal wrapping it) called with 0
				if staticCallee(x) == nil && !x.Call.IsInvoke() && len(x.Call.Args) == 1 {
					if k, ok := constInt(x.Call.Args[0]); ok && k == 0 {
						found = true
					}
				}
				if cal := staticCallee(x); cal != nil {
					if cal.Parent() != nil && len(x.Call.Args) == 1 {
						if k, ok := constInt(x.Call.Args[0]); ok && k == 0 {
							found = true
						}
					}
					// a helper introduced since the baseline that is handed an integer constant 0 and uses that
					// parameter as the index of an element accessor (`transformedXY(seq, 0, f)`)
					if isNewHelper(cal) {
						for ai, a := range x.Call.Args {
							if k, ok := constInt(a); !ok || k != 0 || ai >= len(cal.Params) || !isIntegerT(a.Type()) {
								continue
							}
							par := cal.Params[ai]
							eachCall(cal, func(ci ssa.CallInstruction) {
								if ic := staticCallee(ci); ic != nil {
									switch ic.Name() {
									case "Get", "GetXY", "PointN", "LineStringN", "PolygonN", "GeometryN":
										args := ci.Common().Args
										if len(args) >= 2 && args[len(args)-1] == ssa.Value(par) {
											found = true
										}
									}
								}
							})
						}
					}
					switch cal.Name() {
					case "ExteriorRing", "StartPoint":
						found = true
					case "Get", "GetXY", "PointN", "LineStringN", "PolygonN", "GeometryN":
						if n := len(x.Call.Args); n >= 2 {
							if k, ok := constInt(x.Call.Args[n-1]); ok && k == 0 {
								found = true
							}
						}
					}
				}
			}
		}
	}
	return found
}

// ---- deep equivalence of a wrapper with its delegate ----

// renderK4: canonical rendering of a value, snapshots and slices expanded
func renderK4(it *k4interp, v k4val, d int) string {
	if d > 4 {
		return "…"
	}
	sub := func(prefix string) string {
		var keys []string
		for k := range it.mem {
			if strings.HasPrefix(k, prefix+".") || strings.HasPrefix(k, prefix+"[") {
				keys = append(keys, k)
			}
		}
		sort.Strings(keys)
		var parts []string
		for _, k := range keys {
			parts = append(parts, k[len(prefix):]+"="+renderK4(it, it.mem[k], d+1))
		}
		return strings.Join(parts, ",")
	}
	switch v.kind {
	case 3:
		if isSnapshotKey(v.s+".") || (strings.HasPrefix(v.s, "L") && strings.Contains(v.s, ":")) {
			base := ""
			if b, ok := it.mem[v.s]; ok {
				base = "base:" + renderK4(it, b, d+1) + ";"
			}
			return "{" + base + sub(v.s) + "}"
		}
		return v.s
	case 8:
		var el []string
		for i := 0; i < v.ln; i++ {
			k := fmt.Sprintf("%s[%d]", v.s, v.off+i)
			if x, ok := it.mem[k]; ok {
				el = append(el, renderK4(it, x, d+1))
			} else if s := sub(k); s != "" {
				el = append(el, "{"+s+"}")
			} else {
				el = append(el, k)
			}
		}
		return "[" + strings.Join(el, " ") + "]"
	case 5:
		var p []string
		for _, t := range v.tup {
			p = append(p, renderK4(it, t, d+1))
		}
		return "(" + strings.Join(p, ", ") + ")"
	}
	return v.String()
}

// delegateOf: the function the wrapper method is documented to be, and how its arguments are built from the wrapper's
func delegateOf(c *Ctx, typeName, method string) (target *ssa.Function, build func(it *k4interp, args []k4val) ([]k4val, error), post func(res []k4val) []k4val) {
	recvFunc := func(name string) *ssa.Function {
		if f := c.P.Func("geom.(" + typeName + ")." + name); f != nil {
			return f
		}
		return c.P.Func("geom.(*" + typeName + ")." + name)
	}
	nilSlice := k4val{kind: 3, s: "nil"}
	switch method {
	case "Force2D":
		return recvFunc("ForceCoordinatesType"), func(it *k4interp, a []k4val) ([]k4val, error) { return []k4val{a[0], {kind: 2, f: 0}}, nil }, nil
	case "AsBinary":
		return recvFunc("AppendWKB"), func(it *k4interp, a []k4val) ([]k4val, error) { return []k4val{a[0], nilSlice}, nil }, nil
	case "AsText":
		return recvFunc("AppendWKT"), func(it *k4interp, a []k4val) ([]k4val, error) { return []k4val{a[0], nilSlice}, nil }, nil
	case "Value":
		return recvFunc("AppendWKB"), func(it *k4interp, a []k4val) ([]k4val, error) { return []k4val{a[0], nilSlice}, nil },
			func(res []k4val) []k4val { return append(res, k4val{kind: 3, s: "nil"}) }
	case "Scan":
		return c.P.Func("geom.scanAsType"), func(it *k4interp, a []k4val) ([]k4val, error) { return []k4val{a[1], a[0]}, nil }, nil
	case "UnmarshalJSON":
		return c.P.Func("geom.unmarshalGeoJSONAsType"), func(it *k4interp, a []k4val) ([]k4val, error) { return []k4val{a[1], a[0]}, nil }, nil
	}
	return nil, nil, nil
}

// wrapperDeepEquiv: interpret the wrapper with its delegate's body unfolded, and the delegate itself on the
// corresponding arguments, for every coordinates type and every answer to the Boolean questions either asks
// (answers are tied to the question, not to the order of asking); equal canonical results on all of them.
func wrapperDeepEquiv(c *Ctx, f *ssa.Function, typeName, method string) (bool, string) {
	target, build, post := delegateOf(c, typeName, method)
	if target == nil || len(target.Blocks) == 0 {
		return false, ""
	}
	var keys []string
	models := 0
	for ct := 0; ct < 4; ct++ {
		for mask := 0; mask < 1<<uint(len(keys)) || mask == 0; mask++ {
			if len(keys) > 4 {
				return false, ""
			}
			run := func(fn *ssa.Function, mkArgs func(it *k4interp) ([]k4val, error), inlineTarget bool) (string, error) {
				m := &Model{Num: map[string]float64{}, Bool: map[string]bool{}, Missing: map[string]bool{}}
				it := &k4interp{p: c.P, m: m, mem: map[string]k4val{}}
				leaf := func(g *ssa.Function) bool {
					switch FuncName(g) {
					case "geom.(Sequence).Length", "geom.(Sequence).Get", "geom.(Sequence).GetXY", "geom.(Sequence).CoordinatesType",
						"geom.(CoordinatesType).Dimension", "geom.(CoordinatesType).Is3D", "geom.(CoordinatesType).IsMeasured":
						return true
					}
					return false
				}
				if inlineTarget {
					it.inline = func(g *ssa.Function) bool { return g == target || leaf(g) }
				} else {
					it.inline = leaf
				}
				// a concrete two-point sequence for Sequence receivers
				dim := 2 + (ct & 1) + (ct>>1)&1
				it.mem["$0.floats"] = k4val{kind: 8, s: "F", ln: 2 * dim, cp: 2 * dim}
				for i := 0; i < 2*dim; i++ {
					it.mem[fmt.Sprintf("F[%d]", i)] = k4val{kind: 2, f: float64(10 + i)}
				}
				it.answer = func(key string, isBool bool) (k4val, bool) {
					if !isBool {
						if strings.HasSuffix(key, ".ctype") || strings.HasSuffix(key, ".Type") || strings.Contains(key, ").CoordinatesType(") {
							return k4val{kind: 2, f: float64(ct)}, true
						}
						return k4val{}, false
					}
					for i, k := range keys {
						if k == key {
							return k4val{kind: 1, b: mask&(1<<uint(i)) != 0}, true
						}
					}
					keys = append(keys, key)
					return k4val{kind: 1, b: mask&(1<<uint(len(keys)-1)) != 0}, true
				}
				old := k4WrapperInline
				k4WrapperInline = func(g *ssa.Function) bool {
					if g == f || g.Signature.Recv() == nil {
						return false
					}
					return namedName(g.Signature.Recv().Type()) == typeName && wrapperInline[g.Name()]
				}
				defer func() { k4WrapperInline = old }()
				args, err := mkArgs(it)
				if err != nil {
					return "", err
				}
				res, err := it.call(fn, args, nil)
				if err != nil {
					return "", fmt.Errorf("%v %s", err, missingList(m))
				}
				if !inlineTarget && post != nil {
					res = post(res)
				}
				var rs []string
				for _, r := range res {
					rs = append(rs, renderK4(it, r, 0))
				}
				return strings.Join(rs, " , "), nil
			}
			wargs := func(it *k4interp) ([]k4val, error) {
				var a []k4val
				for i := range f.Params {
					a = append(a, k4val{kind: 3, s: fmt.Sprintf("$%d", i)})
				}
				return a, nil
			}
			got, err1 := run(f, wargs, true)
			want, err2 := run(target, func(it *k4interp) ([]k4val, error) {
				a, _ := wargs(it)
				return build(it, a)
			}, false)
			if err1 != nil || err2 != nil {
				return false, ""
			}
			models++
			if got != want {
				return false, ""
			}
		}
	}
	return true, fmt.Sprintf("%d models", models)
}

func isZeroFloatConst(v ssa.Value) bool {
	cst, ok := v.(*ssa.Const)
	if !ok || cst.Value == nil {
		return false
	}
	f, ok := constantFloat(cst)
	return ok && f == 0
}
