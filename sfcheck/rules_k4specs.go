package main

import "math"

import "fmt"

func b2s(b bool) string { return fmt.Sprint(b) }

func init() {
	register(&Rule{
		ID:    "C12.pred",
		Props: []string{"C12"},
		Doc:   "Envelope predicates and measures equal their closed-interval definitions on every weak ordering of the compared ordinates and every emptiness combination (interpretation of the SSA over finite models): Contains(XY), Intersects, Covers, IsPoint/IsLine/IsRectangle, Width/Height/Area, Distance",
		Floor: 10,
		Run:   runC12Pred,
	})
	register(&Rule{
		ID:    "C11.overlap",
		Props: []string{"C11", "C09"},
		Doc:   "rtree box primitives equal their definitions on every weak ordering: overlap = closed-interval intersection on both axes (touching counts), combine = per-axis min of mins / max of maxes, squaredEuclideanDistance = sum of squared clamped per-axis gaps",
		Floor: 2,
		Run:   runC11Overlap,
	})
	register(&Rule{
		ID:    "C03.finite",
		Props: []string{"C03"},
		Doc:   "XY.validate returns an error exactly when X or Y is NaN or ±Inf (interpreted over models containing finite values, NaN, +Inf and -Inf in both ordinates)",
		Floor: 1,
		Run:   runC03Finite,
	})
}

var envNum = []string{"$0.min.X", "$0.min.Y", "$0.max.X", "$0.max.Y", "$1.min.X", "$1.min.Y", "$1.max.X", "$1.max.Y"}

// envValid: non-empty envelopes satisfy min <= max on both axes.
func envValid(m *Model) bool {
	for _, p := range []string{"$0", "$1"} {
		if _, has := m.Num[p+".min.X"]; !has {
			continue
		}
		if m.Num[p+".min.X"] > m.Num[p+".max.X"] || m.Num[p+".min.Y"] > m.Num[p+".max.Y"] {
			return false
		}
	}
	return true
}

func boxValid(m *Model) bool {
	for _, p := range []string{"$0", "$1"} {
		if m.Num[p+".MinX"] > m.Num[p+".MaxX"] || m.Num[p+".MinY"] > m.Num[p+".MaxY"] {
			return false
		}
	}
	return true
}

func runC12Pred(c *Ctx) {
	inl := []string{"geom.(Envelope).IsEmpty", "geom.fastMin", "geom.fastMax", "geom.(Envelope).IsPoint", "geom.(Envelope).IsLine", "geom.(Envelope).MinMaxXYs", "geom.(XY).Sub", "geom.(XY).Add"}
	v3 := []float64{0, 1, 2}
	ne := func(m *Model, k string) bool { return m.Bool[k+".nonEmpty"] }
	n := func(m *Model, k string) float64 { return m.Num[k] }
	// two-envelope predicates: 3 values per ordinate => all weak orderings of the 4 terms per axis
	// that matter for closed-interval tests appear (3^8 = 6561 models x 4).
	runK4Spec(c, k4spec{valid: envValid, rule: "C12.pred", fn: "geom.(Envelope).Intersects", construct: "Intersects", num: envNum, vals: v3,
		bools: []string{"$0.nonEmpty", "$1.nonEmpty"}, inline: inl, what: "both non-empty and the closed intervals overlap on X and on Y",
		want: func(m *Model) []string {
			return []string{b2s(ne(m, "$0") && ne(m, "$1") &&
				n(m, "$0.min.X") <= n(m, "$1.max.X") && n(m, "$1.min.X") <= n(m, "$0.max.X") &&
				n(m, "$0.min.Y") <= n(m, "$1.max.Y") && n(m, "$1.min.Y") <= n(m, "$0.max.Y"))}
		}})
	runK4Spec(c, k4spec{valid: envValid, rule: "C12.pred", fn: "geom.(Envelope).Covers", construct: "Covers", num: envNum, vals: v3,
		bools: []string{"$0.nonEmpty", "$1.nonEmpty"}, inline: inl, what: "both non-empty and o's interval is inside e's on X and on Y",
		want: func(m *Model) []string {
			return []string{b2s(ne(m, "$0") && ne(m, "$1") &&
				n(m, "$0.min.X") <= n(m, "$1.min.X") && n(m, "$1.max.X") <= n(m, "$0.max.X") &&
				n(m, "$0.min.Y") <= n(m, "$1.min.Y") && n(m, "$1.max.Y") <= n(m, "$0.max.Y"))}
		}})
	runK4Spec(c, k4spec{valid: envValid, rule: "C12.pred", fn: "geom.(Envelope).Contains", construct: "Contains(XY)",
		num: []string{"$0.min.X", "$0.min.Y", "$0.max.X", "$0.max.Y", "$1.X", "$1.Y"}, vals: v3,
		bools: []string{"$0.nonEmpty", "(geom.(XY).validate($1)==nil)"}, inline: inl, what: "non-empty, the point is finite, and min <= p <= max on both axes",
		want: func(m *Model) []string {
			return []string{b2s(ne(m, "$0") && m.Bool["(geom.(XY).validate($1)==nil)"] &&
				n(m, "$0.min.X") <= n(m, "$1.X") && n(m, "$1.X") <= n(m, "$0.max.X") &&
				n(m, "$0.min.Y") <= n(m, "$1.Y") && n(m, "$1.Y") <= n(m, "$0.max.Y"))}
		}})
	one := []string{"$0.min.X", "$0.min.Y", "$0.max.X", "$0.max.Y"}
	runK4Spec(c, k4spec{valid: envValid, rule: "C12.pred", fn: "geom.(Envelope).IsPoint", construct: "IsPoint", num: one, vals: v3, bools: []string{"$0.nonEmpty"}, inline: inl,
		what: "non-empty and degenerate on both axes", want: func(m *Model) []string {
			return []string{b2s(ne(m, "$0") && n(m, "$0.min.X") == n(m, "$0.max.X") && n(m, "$0.min.Y") == n(m, "$0.max.Y"))}
		}})
	runK4Spec(c, k4spec{valid: envValid, rule: "C12.pred", fn: "geom.(Envelope).IsLine", construct: "IsLine", num: one, vals: v3, bools: []string{"$0.nonEmpty"}, inline: inl,
		what: "non-empty and degenerate on exactly one axis", want: func(m *Model) []string {
			return []string{b2s(ne(m, "$0") && (n(m, "$0.min.X") == n(m, "$0.max.X")) != (n(m, "$0.min.Y") == n(m, "$0.max.Y")))}
		}})
	runK4Spec(c, k4spec{valid: envValid, rule: "C12.pred", fn: "geom.(Envelope).IsRectangle", construct: "IsRectangle", num: one, vals: v3, bools: []string{"$0.nonEmpty"}, inline: inl,
		what: "non-empty and non-degenerate on both axes", want: func(m *Model) []string {
			return []string{b2s(ne(m, "$0") && n(m, "$0.min.X") != n(m, "$0.max.X") && n(m, "$0.min.Y") != n(m, "$0.max.Y"))}
		}})
	v4 := []float64{0, 1, 3, 7}
	runK4Spec(c, k4spec{valid: envValid, rule: "C12.pred", fn: "geom.(Envelope).Width", construct: "Width", num: one, vals: v4, bools: []string{"$0.nonEmpty"}, inline: inl,
		what: "max.X - min.X, 0 when empty", want: func(m *Model) []string {
			if !ne(m, "$0") {
				return []string{"0"}
			}
			return []string{fmtNum(n(m, "$0.max.X") - n(m, "$0.min.X"))}
		}})
	runK4Spec(c, k4spec{valid: envValid, rule: "C12.pred", fn: "geom.(Envelope).Height", construct: "Height", num: one, vals: v4, bools: []string{"$0.nonEmpty"}, inline: inl,
		what: "max.Y - min.Y, 0 when empty", want: func(m *Model) []string {
			if !ne(m, "$0") {
				return []string{"0"}
			}
			return []string{fmtNum(n(m, "$0.max.Y") - n(m, "$0.min.Y"))}
		}})
	runK4Spec(c, k4spec{valid: envValid, rule: "C12.pred", fn: "geom.(Envelope).Area", construct: "Area", num: one, vals: v4, bools: []string{"$0.nonEmpty"}, inline: inl,
		what: "(max.X-min.X)*(max.Y-min.Y), 0 when empty", want: func(m *Model) []string {
			if !ne(m, "$0") {
				return []string{"0"}
			}
			return []string{fmtNum((n(m, "$0.max.X") - n(m, "$0.min.X")) * (n(m, "$0.max.Y") - n(m, "$0.min.Y")))}
		}})
	gap := func(aMin, aMax, bMin, bMax float64) float64 {
		g := 0.0
		if bMin-aMax > g {
			g = bMin - aMax
		}
		if aMin-bMax > g {
			g = aMin - bMax
		}
		return g
	}
	runK4Spec(c, k4spec{valid: envValid, rule: "C12.pred", fn: "geom.(Envelope).Distance", construct: "Distance", num: envNum, vals: []float64{0, 3, 7},
		bools: []string{"$0.nonEmpty", "$1.nonEmpty"}, inline: inl, what: "sqrt of the sum of squared clamped per-axis gaps; undefined when either is empty",
		want: func(m *Model) []string {
			if !ne(m, "$0") || !ne(m, "$1") {
				return []string{"", "false"}
			}
			dx := gap(n(m, "$0.min.X"), n(m, "$0.max.X"), n(m, "$1.min.X"), n(m, "$1.max.X"))
			dy := gap(n(m, "$0.min.Y"), n(m, "$0.max.Y"), n(m, "$1.min.Y"), n(m, "$1.max.Y"))
			return []string{"≈" + fmtNum(math.Hypot(dx, dy)), "true"}
		}})
}

var boxNum = []string{"$0.MinX", "$0.MinY", "$0.MaxX", "$0.MaxY", "$1.MinX", "$1.MinY", "$1.MaxX", "$1.MaxY"}

func runC11Overlap(c *Ctx) {
	inl := []string{"rtree.fastMin", "rtree.fastMax"}
	n := func(m *Model, k string) float64 { return m.Num[k] }
	runK4Spec(c, k4spec{valid: boxValid, rule: "C11.overlap", fn: "rtree.overlap", construct: "overlap", num: boxNum, vals: []float64{0, 1, 2}, inline: inl,
		what: "closed intervals intersect on X and on Y (touching counts)", want: func(m *Model) []string {
			return []string{b2s(n(m, "$0.MinX") <= n(m, "$1.MaxX") && n(m, "$1.MinX") <= n(m, "$0.MaxX") &&
				n(m, "$0.MinY") <= n(m, "$1.MaxY") && n(m, "$1.MinY") <= n(m, "$0.MaxY"))}
		}})
	gap := func(aMin, aMax, bMin, bMax float64) float64 {
		g := 0.0
		if bMin-aMax > g {
			g = bMin - aMax
		}
		if aMin-bMax > g {
			g = aMin - bMax
		}
		return g
	}
	runK4Spec(c, k4spec{valid: boxValid, rule: "C11.overlap", fn: "rtree.squaredEuclideanDistance", construct: "squaredEuclideanDistance", num: boxNum, vals: []float64{0, 3, 7}, inline: inl,
		what: "sum of squared clamped per-axis gaps", want: func(m *Model) []string {
			dx := gap(n(m, "$0.MinX"), n(m, "$0.MaxX"), n(m, "$1.MinX"), n(m, "$1.MaxX"))
			dy := gap(n(m, "$0.MinY"), n(m, "$0.MaxY"), n(m, "$1.MinY"), n(m, "$1.MaxY"))
			return []string{fmtNum(dx*dx + dy*dy)}
		}})
}

func runC03Finite(c *Ctx) {
	// 1e308*10 overflows to +Inf at run time (constant arithmetic would not compile)
	big := 1e308
	vals := []float64{0, -1.5, big * 10, -big * 10, nan()}
	runK4Spec(c, k4spec{rule: "C03.finite", fn: "geom.(XY).validate", construct: "finiteness test", num: []string{"$0.X", "$0.Y"}, vals: vals,
		what: "error iff X or Y is NaN or ±Inf", want: func(m *Model) []string {
			bad := false
			for _, k := range []string{"$0.X", "$0.Y"} {
				v := m.Num[k]
				if v != v || v > 1e308 || v < -1e308 {
					bad = true
				}
			}
			if bad {
				return []string{"NONNIL"}
			}
			return []string{"nil"}
		}})
}
