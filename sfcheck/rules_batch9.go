package main

import (
	"fmt"
	"go/token"
	"go/types"
	"math"
	"sort"
	"strings"

	"golang.org/x/tools/go/ssa"
)

func init() {
	register(&Rule{
		ID:    "C13.chain",
		Props: []string{"C13"},
		Doc:   "who produces a hull: every value convexHull returns for a non-empty input is computed from the point set (convexHullPointSet) and, when it is areal, from the result of monotoneChain (or re-oriented by ForceCCW) — the chain is what establishes the counter-clockwise winding, the absence of collinear triples and minimality that the rotating calipers and idempotence rely on; a fast path that hands back (part of) the input unchanged keeps the input's winding and vertices",
		Floor: 3,
		Run:   runC13Chain,
	})
}

// flowsFrom computes, inside f, the set of values derived from a source value:
// an instruction with a derived operand is derived; storing a derived value into
// an element/field of a local aggregate makes the aggregate (its base) derived.
func flowsFrom(f *ssa.Function, isSource func(ssa.Value) bool) map[ssa.Value]bool {
	der := map[ssa.Value]bool{}
	base := func(a ssa.Value) ssa.Value {
		for i := 0; i < 16; i++ {
			switch x := a.(type) {
			case *ssa.IndexAddr:
				a = x.X
			case *ssa.FieldAddr:
				a = x.X
			case *ssa.Slice:
				a = x.X
			case *ssa.UnOp:
				if x.Op == token.MUL {
					a = x.X
				} else {
					return a
				}
			default:
				return a
			}
		}
		return a
	}
	for changed := true; changed; {
		changed = false
		eachInstr(f, func(in ssa.Instruction) {
			if st, ok := in.(*ssa.Store); ok {
				if der[st.Val] {
					b := base(st.Addr)
					if !der[b] {
						der[b] = true
						changed = true
					}
				}
				return
			}
			v, ok := in.(ssa.Value)
			if !ok || der[v] {
				return
			}
			if isSource(v) {
				der[v] = true
				changed = true
				return
			}
			for _, op := range in.Operands(nil) {
				if *op != nil && der[*op] {
					der[v] = true
					changed = true
					return
				}
			}
		})
	}
	return der
}

func runC13Chain(c *Ctx) {
	f := c.P.Func("geom.convexHull")
	if f == nil {
		c.Errorf("anchor geom.convexHull does not resolve")
		return
	}
	fn := FuncName(f)
	isCallTo := func(v ssa.Value, names ...string) bool {
		call, ok := v.(*ssa.Call)
		if !ok {
			return false
		}
		n := calleeName(call)
		for _, w := range names {
			if n == w {
				return true
			}
		}
		return false
	}
	isChain := func(v ssa.Value) bool {
		return isCallTo(v, "geom.monotoneChain", "geom.(Polygon).ForceCCW", "geom.(Geometry).ForceCCW")
	}
	// a result of a helper introduced since the baseline that hands the chain's result back (nil on its other paths)
	helperResult := func(v ssa.Value, src func(ssa.Value) bool) bool {
		var call *ssa.Call
		idx := 0
		switch x := v.(type) {
		case *ssa.Extract:
			call, _ = x.Tuple.(*ssa.Call)
			idx = x.Index
		case *ssa.Call:
			call = x
		}
		if call == nil {
			return false
		}
		h := staticCallee(call)
		if h == nil || !isNewHelper(h) || len(h.Blocks) == 0 {
			return false
		}
		flows := flowsFrom(h, src)
		// its other paths may hand back nil or something taken from its own parameters (the degenerate cases)
		fromParams := flowsFrom(h, func(x ssa.Value) bool {
			in, ok := x.(ssa.Instruction)
			if !ok {
				return false
			}
			for _, op := range in.Operands(nil) {
				if *op != nil {
					if _, isPar := (*op).(*ssa.Parameter); isPar {
						return true
					}
				}
			}
			return false
		})
		some := false
		for _, r := range returnsOf(h) {
			if idx >= len(r.Results) {
				return false
			}
			rv := r.Results[idx]
			if isNilConst(rv) {
				continue
			}
			if flows[rv] {
				some = true
				continue
			}
			if !fromParams[rv] {
				return false
			}
		}
		return some
	}
	isPts := func(v ssa.Value) bool { return isCallTo(v, "geom.convexHullPointSet") }
	// inside a helper the point set arrives as a parameter
	isPtsOrParam := func(v ssa.Value) bool {
		if isPts(v) {
			return true
		}
		_, isPar := v.(*ssa.Parameter)
		return isPar
	}
	fromChain := flowsFrom(f, func(v ssa.Value) bool { return isChain(v) || helperResult(v, isChain) })
	fromPts := flowsFrom(f, func(v ssa.Value) bool { return isPts(v) || helperResult(v, isPtsOrParam) })
	nChain := 0
	for _, r := range returnsOf(f) {
		if len(r.Results) != 1 {
			continue
		}
		res := r.Results[0]
		var edges []ssa.Value
		if phi, ok := res.(*ssa.Phi); ok {
			edges = phi.Edges
		} else {
			edges = []ssa.Value{res}
		}
		for _, e := range edges {
			construct := "return " + shortVal(e)
			// empty input: the input itself (forced to 2D) is the documented answer
			emptyGuard := false
			at := ssa.Instruction(r)
			if in, ok := e.(ssa.Instruction); ok {
				at = in
			}
			for _, g := range guardsAt(at) {
				if call, ok := g.Cond.(*ssa.Call); ok && g.Truth && calleeName(call) == "geom.(Geometry).IsEmpty" {
					emptyGuard = true
				}
			}
			switch {
			case emptyGuard:
				c.Triv(r.Pos(), fn, construct, "empty input: returned under g.IsEmpty()")
			case fromChain[e]:
				nChain++
				c.OK(r.Pos(), fn, construct, "derived from the result of monotoneChain")
			case fromPts[e] && isCallTo(e, "geom.(Point).AsGeometry"):
				c.OK(r.Pos(), fn, construct, "point case: a single point of the extracted point set")
			default:
				c.Bad(r.Pos(), fn, construct, "a line or polygon hull is returned that is not computed by monotoneChain from the point set: only the chain establishes the extreme points, the counter-clockwise ring the calipers assume, and the removal of collinear and duplicate vertices (independence of point order and multiplicity)")
			}
		}
	}
	if nChain < 2 {
		c.Errorf("only %d returns derived from monotoneChain, expected the linear and the polygon case", nChain)
	}
}

func typeIs(v ssa.Value, name string) bool {
	return typeShort(v.Type()) == name
}

func shortVal(v ssa.Value) string {
	if call, ok := v.(*ssa.Call); ok {
		return calleeName(call) + "(…)"
	}
	s, _ := accessPath(v)
	return s
}

func init() {
	register(&Rule{
		ID:    "C15.scanline",
		Props: []string{"C15"},
		Doc:   "pointOnAreaSurface's scan line never passes through a control point: interpreted on a modelled ring with every combination and order of vertex heights relative to the envelope's mid height, the Y of the bisector handed to intersectLine is the mid height when no vertex has it, and otherwise the average of the mid height and the lowest vertex height strictly above it (over ALL vertices, whatever their order) — a scan line through a vertex yields an odd/duplicated intercept list and a point on the boundary or outside",
		Floor: 1,
		Run:   runC15Scanline,
	})
}

func runC15Scanline(c *Ctx) {
	f := c.P.Func("geom.pointOnAreaSurface")
	if f == nil {
		c.Errorf("anchor geom.pointOnAreaSurface does not resolve")
		return
	}
	fn := FuncName(f)
	inl := func(g *ssa.Function) bool {
		switch FuncName(g) {
		case "geom.getLine", "geom.(line).intersectLine", "geom.sortAndUniquifyFloats":
			return false
		}
		return g.Pkg != nil && g.Pkg.Pkg.Name() == "geom"
	}
	const npts = 3
	var keys []string
	for i := 0; i < npts; i++ {
		keys = append(keys, fmt.Sprintf("F[%d]", 2*i+1))
	}
	problem, undec := "", ""
	models := 0
	// a hole of two modelled vertices strictly inside the shell's height range joins the model in a
	// second pass: its vertices count for the scan-line height like the shell's
	const nhole = 2
	holeKeys := []string{"H[1]", "H[3]"}
	for _, withHole := range []bool{false, true} {
		allKeys := append([]string{}, keys...)
		if withHole {
			allKeys = append(allKeys, holeKeys...)
		}
		k4enumerate(allKeys, []float64{0, 1, 2, 3, 4}, nil, func(m *Model) bool {
			lo, hi := math.Inf(1), math.Inf(-1)
			for i := 0; i < npts; i++ {
				lo, hi = math.Min(lo, m.Num[keys[i]]), math.Max(hi, m.Num[keys[i]])
			}
			if lo == hi {
				return true // a polygon has positive height
			}
			if withHole {
				for _, hk := range holeKeys {
					if m.Num[hk] <= lo || m.Num[hk] >= hi {
						return true // a hole lies inside its shell
					}
				}
			}
			mid := (lo + hi) / 2
			models++
			m.Missing = map[string]bool{}
			it := &k4interp{p: c.P, m: m, mem: map[string]k4val{}, inline: inl}
			for i := 0; i < npts; i++ {
				it.mem[fmt.Sprintf("F[%d]", 2*i)] = k4val{kind: 2, f: float64(10 + i)}
				it.mem[keys[i]] = k4val{kind: 2, f: m.Num[keys[i]]}
			}
			it.mem["$0.rings"] = k4val{kind: 8, s: "R", ln: 1, cp: 1}
			it.mem["R[0].seq.floats"] = k4val{kind: 8, s: "F", ln: 2 * npts, cp: 2 * npts}
			it.mem["R[0].seq.ctype"] = k4val{kind: 2, f: 0}
			if withHole {
				it.mem["$0.rings"] = k4val{kind: 8, s: "R", ln: 2, cp: 2}
				for i := 0; i < nhole; i++ {
					it.mem[fmt.Sprintf("H[%d]", 2*i)] = k4val{kind: 2, f: float64(10.25 + float64(i)/2)}
					it.mem[holeKeys[i]] = k4val{kind: 2, f: m.Num[holeKeys[i]]}
				}
				it.mem["R[1].seq.floats"] = k4val{kind: 8, s: "H", ln: 2 * nhole, cp: 2 * nhole}
				it.mem["R[1].seq.ctype"] = k4val{kind: 2, f: 0}
			}
			it.answer = func(key string, isBool bool) (k4val, bool) {
				// every segment is usable and none meets the bisector: the intercept list stays empty
				if isBool && strings.HasPrefix(key, "geom.getLine(") {
					return k4val{kind: 1, b: true}, true
				}
				if isBool && strings.HasPrefix(key, "geom.(line).intersectLine(") && strings.HasSuffix(key, ".empty") {
					return k4val{kind: 1, b: true}, true
				}
				if !isBool && strings.HasPrefix(key, "len(geom.sortAndUniquifyFloats(") {
					return k4val{kind: 2, f: 0}, true
				}
				return k4val{}, false
			}
			_, err := it.call(f, []k4val{{kind: 3, s: "$0"}}, nil)
			if err != nil {
				undec = fmt.Sprintf("%v %s", err, missingList(m))
				return false
			}
			// the bisector: second argument of every intersectLine call
			var ys []float64
			for _, k := range it.calls {
				if !strings.HasPrefix(k, "geom.(line).intersectLine(") {
					continue
				}
				args := splitTopLevel(strings.TrimSuffix(strings.TrimPrefix(k, "geom.(line).intersectLine("), ")"))
				if len(args) != 2 {
					undec = "cannot read the bisector from " + k
					return false
				}
				for _, p := range []string{".a.Y", ".b.Y"} {
					v, err := it.lookup(args[1]+p, nil0)
					if err != nil || v.kind != 2 {
						undec = "cannot read the bisector height from " + k
						return false
					}
					ys = append(ys, v.f)
				}
			}
			if len(ys) == 0 {
				undec = "no intersectLine call observed"
				return false
			}
			match, next := false, math.Inf(1)
			heights := []float64{}
			for i := 0; i < npts; i++ {
				heights = append(heights, m.Num[keys[i]])
			}
			if withHole {
				for _, hk := range holeKeys {
					heights = append(heights, m.Num[hk])
				}
			}
			for _, y := range heights {
				if y == mid {
					match = true
				}
				if y > mid && y < next {
					next = y
				}
			}
			want := mid
			if match {
				want = (mid + next) / 2
			}
			for _, y := range ys {
				if y != want {
					problem = fmt.Sprintf("with vertex heights %v (shell first, then the hole's, if any), envelope mid height %v, the scan line is placed at Y=%v, expected %v: every ring's vertices count", heights, mid, y, want)
					return false
				}
			}
			return true
		})
		if problem != "" || undec != "" {
			break
		}
	}
	construct := "scan-line height"
	switch {
	case undec != "":
		c.Undecided(f.Pos(), fn, construct, "cannot interpret: "+undec)
	case problem != "":
		c.Bad(f.Pos(), fn, construct, problem)
	default:
		c.OK(f.Pos(), fn, construct, fmt.Sprintf("mid height, or the average of it and the lowest vertex height above it when a vertex lies on it, in all %d models of vertex heights and orders", models))
	}
}

// splitTopLevel splits a comma-separated argument list, respecting parentheses.
func splitTopLevel(s string) []string {
	var out []string
	depth, start := 0, 0
	for i, r := range s {
		switch r {
		case '(', '[', '{':
			depth++
		case ')', ']', '}':
			depth--
		case ',':
			if depth == 0 {
				out = append(out, strings.TrimSpace(s[start:i]))
				start = i + 1
			}
		}
	}
	return append(out, strings.TrimSpace(s[start:]))
}

func init() {
	register(&Rule{
		ID:    "C19.cache",
		Props: []string{"C19", "C10"},
		Doc:   "Forward and Reverse are functions of the current configuration: a field of a projection that is written by code reachable from Forward/Reverse (a memoised derived constant) must be written (reset) by every method that changes the configuration — otherwise a setter called after the first projection leaves a stale constant and Reverse no longer inverts Forward for the configuration in force",
		Floor: 9,
		Run:   runC19Cache,
	})
}

func runC19Cache(c *Ctx) {
	for _, p := range cartoProjections(c) {
		tn := p.named.Obj().Name()
		fn := "carto." + tn
		fieldsWritten := func(roots ...*ssa.Function) map[*types.Var]token.Pos {
			out := map[*types.Var]token.Pos{}
			reach := c.P.reachableFrom(roots...)
			for f := range reach {
				if pkgOf(f) != "carto" {
					continue
				}
				eachInstr(f, func(in ssa.Instruction) {
					st, ok := in.(*ssa.Store)
					if !ok {
						return
					}
					addr := st.Addr
					for k := 0; k < 6; k++ {
						switch a := addr.(type) {
						case *ssa.FieldAddr:
							if named, ok := deref(a.X.Type()).(*types.Named); ok && named == p.named {
								if fv := fieldVar(a.X.Type(), a.Field); fv != nil {
									if _, dup := out[fv]; !dup {
										out[fv] = st.Pos()
									}
								}
							}
							addr = a.X
							continue
						case *ssa.IndexAddr:
							addr = a.X
							continue
						}
						break
					}
				})
			}
			return out
		}
		cached := fieldsWritten(p.forward, p.reverse)
		if len(cached) == 0 {
			c.OK(p.forward.Pos(), fn, "memoised fields", "Forward/Reverse and their callees write no field of the projection")
			continue
		}
		var names []string
		for fv := range cached {
			names = append(names, fv.Name())
		}
		sort.Strings(names)
		projReach := c.P.reachableFrom(p.forward, p.reverse)
		for _, m := range p.methods {
			if m == p.forward || m == p.reverse || projReach[m] {
				continue
			}
			w := fieldsWritten(m)
			config := false
			for fv := range w {
				if _, isCache := cached[fv]; !isCache {
					config = true
				}
			}
			if !config {
				continue
			}
			var stale []string
			for _, n := range names {
				found := false
				for fv := range w {
					if fv.Name() == n {
						found = true
					}
				}
				if !found {
					stale = append(stale, n)
				}
			}
			construct := "setter " + m.Name() + " vs memoised " + strings.Join(names, ",")
			if len(stale) == 0 {
				c.OK(m.Pos(), fn, construct, "resets every field that Forward/Reverse memoise")
			} else {
				c.Bad(m.Pos(), fn, construct, fmt.Sprintf("%s changes the configuration but does not reset %s, which Forward/Reverse compute once and keep (written at %s): after the setter, the projection works with constants of the previous configuration", m.Name(), strings.Join(stale, ", "), c.P.Pos(cached[firstVar(cached, stale[0])])))
			}
		}
	}
}

func firstVar(m map[*types.Var]token.Pos, name string) *types.Var {
	for fv := range m {
		if fv.Name() == name {
			return fv
		}
	}
	return nil
}

func init() {
	register(&Rule{
		ID:    "C04.own",
		Props: []string{"C04", "C10", "C16", "C08"},
		Doc:   "the float slice a decoder hands to NewSequence belongs to the result alone: in every function reachable from the decoder entry points, the slice passed to NewSequence is made in that function (make / append from nil / a repository function proven to return fresh memory) and is not (a view of) memory held in the parser's own state, a global or the caller's input — a Sequence backed by a reused scratch buffer is overwritten when the next member or the next document is decoded",
		Floor: 8,
		Run:   runC04Own,
	})
}

func runC04Own(c *Ctx) {
	entries := decoderEntries(c.P)
	reach := c.P.reachableFrom(entries...)
	e := newProvEnv(c.P)
	for _, f := range c.P.Funcs {
		if !reach[f] || pkgOf(f) != "geom" {
			continue
		}
		fn := FuncName(f)
		for _, call := range callsTo(f, "geom.NewSequence") {
			arg := call.Common().Args[0]
			info := e.of(arg)
			as, _ := accessPath(arg)
			construct := "NewSequence(" + trunc(as) + ")"
			if info.onlyFresh() {
				c.OK(call.Pos(), fn, construct, "backing array allocated in this function (or by a function returning fresh memory)")
				continue
			}
			c.Bad(call.Pos(), fn, construct, "the backing array of the new Sequence is "+info.nonFreshDesc()+", not memory allocated for this result: a later decode step (or the caller) can overwrite the coordinates of an already returned geometry")
		}
	}
}
