package main

import (
	"fmt"
	"go/token"
	"go/types"
	"sort"
	"strings"

	"golang.org/x/tools/go/ssa"
)

func init() {
	register(&Rule{
		ID:    "C10.write",
		Props: []string{"C10", "C11", "C04", "C08", "C17", "C14"},
		Doc:   "read-only heap: no store, copy, in-place sort/heap operation, map update or in-place append targets memory that is reachable from a parameter/receiver/global through a protected type (Sequence, the 7 geometry types, Geometry, Envelope, RTree, node, entry); functions that mutate a plain slice parameter are summarised (mutates(f,i), fixpoint over the call graph, closures attributed to the owning function) and every call site must pass fresh memory or propagate; exported functions may mutate a parameter only if reviewed",
		Floor: 150,
		Run:   runC10Write,
	})
	register(&Rule{
		ID:    "C10.global",
		Props: []string{"C10", "C14"},
		Doc:   "no package-level state is written after init, and no nondeterminism/concurrency primitive is used: stores to globals only in init; no go statement; no call into time, math/rand, os, sync, sync/atomic, runtime (other than via fmt/errors)",
		Floor: 0,
		Run:   runC10Global,
	})
}

type mutSite struct {
	in     ssa.Instruction
	target ssa.Value
	how    string
}

var inPlaceExternal = map[string]int{
	"sort.Slice": 0, "sort.SliceStable": 0, "sort.Sort": 0, "sort.Stable": 0, "sort.Float64s": 0, "sort.Ints": 0, "sort.Strings": 0,
	"container/heap.Init": 0, "container/heap.Push": 0, "container/heap.Pop": 0, "container/heap.Fix": 0, "container/heap.Remove": 0,
	"slices.Sort": 0, "slices.SortFunc": 0, "slices.SortStableFunc": 0, "slices.Reverse": 0,
	"math/rand.Shuffle": -1,
}

func mutationSites(f *ssa.Function, mutates map[*ssa.Function]map[int]bool) []mutSite {
	var out []mutSite
	eachInstr(f, func(in ssa.Instruction) {
		switch x := in.(type) {
		case *ssa.Store:
			if localRoot(x.Addr) != nil {
				return
			}
			out = append(out, mutSite{in, x.Addr, "store"})
		case *ssa.MapUpdate:
			out = append(out, mutSite{in, x.Map, "map update"})
		case ssa.CallInstruction:
			cc := x.Common()
			if b, ok := cc.Value.(*ssa.Builtin); ok {
				switch b.Name() {
				case "copy":
					out = append(out, mutSite{in, cc.Args[0], "copy into"})
				case "delete", "clear":
					out = append(out, mutSite{in, cc.Args[0], b.Name()})
				case "append":
					out = append(out, mutSite{in, cc.Args[0], "append"})
				}
				return
			}
			cal := staticCallee(x)
			if cal == nil {
				return
			}
			if idx, ok := inPlaceExternal[extName(cal)]; ok && idx >= 0 && idx < len(cc.Args) {
				out = append(out, mutSite{in, cc.Args[idx], "in-place " + extName(cal)})
				return
			}
			if m := mutates[cal]; m != nil {
				var idxs []int
				for i := range m {
					idxs = append(idxs, i)
				}
				sort.Ints(idxs)
				for _, i := range idxs {
					if i < len(cc.Args) {
						out = append(out, mutSite{in, cc.Args[i], fmt.Sprintf("call of %s, which mutates its argument %d", FuncName(cal), i)})
					}
				}
			}
		}
	})
	return out
}

func paramIndex(f *ssa.Function, p *ssa.Parameter) int {
	for i, pp := range f.Params {
		if pp == p {
			return i
		}
	}
	return -1
}

func rootFunc(f *ssa.Function) *ssa.Function {
	for f.Parent() != nil {
		f = f.Parent()
	}
	return f
}

// deepVia: the mutation target is reached through a pointer/slice loaded from
// field F of parameter p (p.F[i] = x, copy(p.F, ..), flip(p.F[:n])): returns
// (p, F). A direct write of the parameter's own field (p.F = x) is shallow.
func deepVia(target ssa.Value) (*ssa.Parameter, string, bool) {
	v := target
	loads := 0
	field := ""
	for i := 0; i < 16; i++ {
		switch x := v.(type) {
		case *ssa.IndexAddr:
			v = x.X
		case *ssa.Slice:
			v = x.X
		case *ssa.FieldAddr:
			if loads > 0 && field == "" {
				field = fieldName(x.X.Type(), x.Field)
			} else if loads > 0 {
				// deeper than one level: keep the outermost field name
				field = fieldName(x.X.Type(), x.Field)
			}
			v = x.X
		case *ssa.UnOp:
			if x.Op != token.MUL {
				return nil, "", false
			}
			loads++
			v = x.X
		case *ssa.Alloc:
			st := uniqueStore(x)
			if st == nil {
				return nil, "", false
			}
			if p, ok := st.(*ssa.Parameter); ok && loads > 0 && field != "" {
				// value receiver spilled to a local: p.F loaded from the spill
				loads--
				if loads > 0 {
					return p, field, true
				}
				return nil, "", false
			}
			v = st
		case *ssa.Parameter:
			if loads > 0 && field != "" {
				return x, field, true
			}
			return nil, "", false
		default:
			return nil, "", false
		}
	}
	return nil, "", false
}

func runC10Write(c *Ctx) {
	env := newProvEnv(c.P)
	mutates := map[*ssa.Function]map[int]bool{}
	deep := map[*ssa.Function]map[int]map[string]bool{} // f -> param -> fields through which memory is written
	addDeep := func(f *ssa.Function, idx int, field string) bool {
		if deep[f] == nil {
			deep[f] = map[int]map[string]bool{}
		}
		if deep[f][idx] == nil {
			deep[f][idx] = map[string]bool{}
		}
		if deep[f][idx][field] {
			return false
		}
		deep[f][idx][field] = true
		return true
	}
	var funcs []*ssa.Function
	for _, f := range c.P.Funcs {
		if pk := pkgOf(f); pk == "geom" || pk == "rtree" {
			funcs = append(funcs, f)
		}
	}
	type verdict struct {
		site mutSite
		f    *ssa.Function
		info *provInfo
	}
	var final []verdict
	for iter := 0; iter < 12; iter++ {
		changed := false
		final = final[:0]
		for _, f := range funcs {
			sites := mutationSites(f, mutates)
			// call sites of functions that write through a field of a struct parameter
			eachCall(f, func(call ssa.CallInstruction) {
				cal := staticCallee(call)
				if cal == nil || deep[cal] == nil {
					return
				}
				args := call.Common().Args
				for j, fields := range deep[cal] {
					if j >= len(args) {
						continue
					}
					for field := range fields {
						root := args[j]
						// forwarding the caller's own struct pointer
						if p, ok := root.(*ssa.Parameter); ok {
							if idx := paramIndex(f, p); idx >= 0 && addDeep(f, idx, field) {
								changed = true
							}
							continue
						}
						// pointer to a local struct: the memory written is whatever was put into local.field
						if al, ok := root.(*ssa.Alloc); ok {
							for _, r := range *al.Referrers() {
								fa, ok := r.(*ssa.FieldAddr)
								if !ok || fieldName(fa.X.Type(), fa.Field) != field {
									continue
								}
								for _, rr := range *fa.Referrers() {
									if st, ok := rr.(*ssa.Store); ok && st.Addr == fa {
										sites = append(sites, mutSite{call.(ssa.Instruction), st.Val, fmt.Sprintf("call of %s, which writes through field %s of its argument %d;", FuncName(cal), field, j)})
									}
								}
							}
						}
					}
				}
			})
			for _, s := range sites {
				if p, field, ok := deepVia(s.target); ok {
					owner := p.Parent()
					if idx := paramIndex(owner, p); idx >= 0 && addDeep(owner, idx, field) {
						changed = true
					}
				}
				info := env.of(s.target)
				info = filterBases(&provInfo{bases: info.bases, protected: protectedTarget(s.target)}, s.target)
				if s.how == "append" {
					// append only writes in place when there is spare capacity; it matters
					// only for shared protected memory.
					if info.onlyFresh() || info.protected == "" {
						continue
					}
				}
				if s.how == "store" && info.protected == "" && storeIntoOwnAppendedTail(s.target) {
					// x[len(x)-1] = … just after this function appended to x: like the append
					// itself, a write beyond what the caller sees of its slice
					continue
				}
				final = append(final, verdict{s, f, info})
				if info.onlyFresh() || info.protected != "" {
					continue
				}
				for b := range info.bases {
					if b.kind == bkParam {
						owner := b.param.Parent()
						idx := paramIndex(owner, b.param)
						if idx < 0 {
							continue
						}
						if mutates[owner] == nil {
							mutates[owner] = map[int]bool{}
						}
						if !mutates[owner][idx] {
							mutates[owner][idx] = true
							changed = true
						}
					}
				}
			}
		}
		if !changed {
			break
		}
	}
	for _, v := range final {
		f, s, info := v.f, v.site, v.info
		fn := FuncName(f)
		ts, _ := accessPath(s.target)
		construct := s.how + " " + trunc(ts)
		switch {
		case info.onlyFresh():
			c.OK(instrPos(s.in), fn, construct, "target is memory allocated in this function or not reachable (by type) from any parameter")
		case info.protected != "":
			root := rootFunc(f)
			// reviewed exceptions
			if (root.Name() == "Scan" || root.Name() == "UnmarshalJSON") && root.Signature.Recv() != nil {
				if _, isPtr := root.Signature.Recv().Type().(*types.Pointer); isPtr && s.how == "store" {
					if base, _ := baseObject(s.target); base == ssa.Value(root.Params[0]) && f == root {
						c.Except(instrPos(s.in), fn, construct, "decode-into adapter: assigns the whole value through its own pointer receiver, which the caller owns")
						continue
					}
				}
			}
			// a pointer-receiver helper introduced since the baseline that only the decode-into adapters of
			// the same type call on their own receiver is part of them
			if isNewHelper(root) && root.Signature.Recv() != nil && s.how == "store" && f == root {
				if _, isPtr := root.Signature.Recv().Type().(*types.Pointer); isPtr {
					if base, _ := baseObject(s.target); base == ssa.Value(root.Params[0]) {
						sites := c.P.callSitesOf(root)
						only := len(sites) > 0
						for _, cs := range sites {
							caller := rootFunc(cs.Parent())
							if !(caller.Name() == "Scan" || caller.Name() == "UnmarshalJSON") || caller.Signature.Recv() == nil || len(cs.Common().Args) == 0 || cs.Common().Args[0] != ssa.Value(caller.Params[0]) {
								only = false
							}
						}
						if only {
							c.Except(instrPos(s.in), fn, construct, "helper of a decode-into adapter, called only on that adapter's own pointer receiver, which the caller owns")
							continue
						}
					}
				}
			}
			if FuncName(root) == "geom.assignToConcrete" && s.how == "store" {
				c.Except(instrPos(s.in), fn, construct, "assigns a whole decoded value through the destination pointer supplied by Scan/UnmarshalJSON")
				continue
			}
			if s.how == "store" {
				if why, ok := outParamOfLocals(c.P, f, s.target); ok {
					c.OK(instrPos(s.in), fn, construct, why)
					continue
				}
			}
			c.Bad(instrPos(s.in), fn, construct, fmt.Sprintf("%s targets memory reachable from %s through protected %s: a geometry/sequence/R-tree shared with the caller (or other goroutines) is modified in place", s.how, info.nonFreshDesc(), info.protected))
		default:
			c.OK(instrPos(s.in), fn, construct, "target is a plain (unprotected) parameter: recorded in the mutates summary and checked at every call site")
		}
	}
	// exported API: may not mutate parameters unless reviewed
	reviewed := map[string]string{
		"rtree.BulkLoad#0": "documented: the tree takes ownership of (and permutes) the items slice; all callers in geom pass a slice built for the call",
	}
	var owners []*ssa.Function
	for f := range mutates {
		owners = append(owners, f)
	}
	sort.Slice(owners, func(i, j int) bool { return FuncName(owners[i]) < FuncName(owners[j]) })
	for _, f := range owners {
		if f.Parent() != nil || !token.IsExported(f.Name()) {
			continue
		}
		if recv := f.Signature.Recv(); recv != nil && !token.IsExported(namedName(recv.Type())) {
			continue
		}
		for i := range mutates[f] {
			fn := FuncName(f)
			construct := fmt.Sprintf("exported function mutates parameter %d (%s)", i, f.Params[i].Name())
			key := fmt.Sprintf("%s#%d", fn, i)
			if why, ok := reviewed[key]; ok {
				c.Except(f.Pos(), fn, construct, why)
			} else if isOptionParam(f.Params[i]) {
				c.Except(f.Pos(), fn, construct, "functional-option pattern: writes the unexported option struct handed to it by the library itself")
			} else if (f.Name() == "Scan" || f.Name() == "UnmarshalJSON") && i == 0 && f.Signature.Recv() != nil {
				c.Except(f.Pos(), fn, construct, "decode-into adapter: fills in its own pointer receiver, which the caller owns")
			} else {
				c.Bad(f.Pos(), fn, construct, "an exported function writes into memory owned by its caller")
			}
		}
	}
}

// outParamOfLocals: the store writes the variable a pointer parameter of an
// unexported function points at (the variable itself or a field of it, no
// pointer or slice inside it is followed), the function is only ever called
// directly, and every call passes the address of a local variable of the
// caller: the memory written is the caller's own variable, which no geometry
// shares.
func outParamOfLocals(p *Program, f *ssa.Function, target ssa.Value) (string, bool) {
	if f.Parent() != nil || isExportedAPI(f) {
		return "", false
	}
	v := target
	for {
		fa, ok := v.(*ssa.FieldAddr)
		if !ok {
			break
		}
		v = fa.X
	}
	par, ok := v.(*ssa.Parameter)
	if !ok {
		return "", false
	}
	idx := paramIndex(f, par)
	if idx < 0 {
		return "", false
	}
	if _, isPtr := par.Type().Underlying().(*types.Pointer); !isPtr {
		return "", false
	}
	sites := 0
	for _, g := range p.Funcs {
		if !p.InRepo(g) {
			continue
		}
		bad := false
		eachInstr(g, func(in ssa.Instruction) {
			for _, op := range in.Operands(nil) {
				if *op != ssa.Value(f) {
					continue
				}
				ci, isCall := in.(ssa.CallInstruction)
				if !isCall || ci.Common().Value != ssa.Value(f) || ci.Common().IsInvoke() {
					bad = true // used as a value: unknown callers
					continue
				}
				if _, isDefer := in.(*ssa.Defer); isDefer {
					bad = true
				}
				if al, isAlloc := ci.Common().Args[idx].(*ssa.Alloc); !isAlloc || g.Parent() != nil && al.Parent() != g {
					bad = true
				} else {
					sites++
				}
			}
		})
		if bad {
			return "", false
		}
	}
	if sites == 0 {
		return "", false
	}
	return fmt.Sprintf("out-parameter: %s is unexported and only called directly, and each of its %d call sites passes the address of a local variable of the caller", FuncName(f), sites), true
}

// isOptionParam: pointer to an unexported named struct (functional options).
func isOptionParam(p *ssa.Parameter) bool {
	pt, ok := p.Type().Underlying().(*types.Pointer)
	if !ok {
		return false
	}
	n, ok := pt.Elem().(*types.Named)
	if !ok {
		return false
	}
	_, isStruct := n.Underlying().(*types.Struct)
	return isStruct && !token.IsExported(n.Obj().Name())
}

func runC10Global(c *Ctx) {
	banned := []string{"time.", "math/rand.", "math/rand/v2.", "os.", "sync.", "sync/atomic.", "(*sync.", "(*math/rand.", "(*os.", "(time.", "runtime.", "(*sync/atomic."}
	n := 0
	for _, f := range c.P.Funcs {
		pk := pkgOf(f)
		if pk != "geom" && pk != "rtree" && pk != "carto" {
			continue
		}
		fn := FuncName(f)
		isInit := strings.HasPrefix(rootFunc(f).Name(), "init")
		eachInstr(f, func(in ssa.Instruction) {
			switch x := in.(type) {
			case *ssa.Go:
				n++
				c.Bad(x.Pos(), fn, "go statement", "library code starts a goroutine: results may depend on scheduling")
			case *ssa.Store:
				base, _ := baseObject(x.Addr)
				g, ok := base.(*ssa.Global)
				if !ok {
					// also element/field addresses rooted in a global
					a := x.Addr
					for i := 0; i < 8 && !ok; i++ {
						switch y := a.(type) {
						case *ssa.FieldAddr:
							a = y.X
						case *ssa.IndexAddr:
							a = y.X
						case *ssa.UnOp:
							a = y.X
						case *ssa.Global:
							g, ok = y, true
						default:
							i = 8
						}
					}
				}
				if ok && !isInit {
					n++
					c.Bad(x.Pos(), fn, "store to package variable "+g.Name(), "package-level state is written outside init: results can depend on call history and concurrent callers race")
				} else if ok {
					n++
					c.OK(x.Pos(), fn, "store to package variable "+g.Name(), "inside the package initialiser")
				}
			case *ssa.MapUpdate:
				if ld, ok := x.Map.(*ssa.UnOp); ok {
					if g, ok := ld.X.(*ssa.Global); ok && !isInit {
						n++
						c.Bad(x.Pos(), fn, "update of package-level map "+g.Name(), "package-level map is written outside init (memoisation/shared cache): data race under concurrent use and history-dependent results")
					}
				}
			case ssa.CallInstruction:
				name := calleeName(x)
				for _, b := range banned {
					if strings.HasPrefix(name, b) {
						n++
						c.Bad(x.Pos(), fn, "call "+name, "nondeterminism / shared-state primitive used in library code")
					}
				}
			}
		})
	}
	// positive control is registered in fixtureChecks
	c.Triv(token.NoPos, "-", "summary", fmt.Sprintf("%d package-state/nondeterminism sites examined", n))
}
