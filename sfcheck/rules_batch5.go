package main

import (
	"fmt"
	"go/types"
	"regexp"
	"strings"

	"golang.org/x/tools/go/ssa"
)

func init() {
	register(&Rule{
		ID:    "C09.dispatch",
		Props: []string{"C09", "C20", "C02"},
		Doc:   "Intersects interpreted for all 49 ordered pairs of geometry types: never reaches the trailing panic; after the rank swap every pair is routed to a kernel, and each operand is converted with the MustAs* accessor of its actual type (no arm converts an operand to the wrong type, which would panic) — symmetric by construction because the swap only depends on the ranks",
		Floor: 49,
		Run:   runC09Dispatch,
	})
	register(&Rule{
		ID:    "C02.fill",
		Props: []string{"C02"},
		Doc:   "extractIntersectionMatrix writes dimension entries in ascending order because set overwrites: no '1' write can be followed by a '0' write and no '2' write by a '1' or '0' write (CFG reachability); vertices contribute '0', half-edges '1', faces '2'; the first argument of set is the location with respect to operand A and the second with respect to operand B",
		Floor: 3,
		Run:   runC02Fill,
	})
	register(&Rule{
		ID:    "C11.visit",
		Props: []string{"C11"},
		Doc:   "RangeSearch's per-node step interpreted on a modelled node with 3 entries over every combination of (overlaps query, is leaf): the callback is invoked exactly for the leaf entries that overlap, in order, and recursion descends exactly into the overlapping children; PrioritySearch enqueues entries 0..numEntries-1 of each node; the queue orders by squared distance to the query origin (Less(i,j) = d(i) < d(j))",
		Floor: 1,
		Run:   runC11Visit,
	})
	register(&Rule{
		ID:    "C14.additive",
		Props: []string{"C14"},
		Doc:   "measures are additive over members: MultiPolygon.Area, GeometryCollection.Area, MultiLineString.Length and GeometryCollection.Length interpreted on 2 members return exactly the sum of the members' measures (each member visited once); Polygon.Centroid weights its rings +|shell| and -|hole| and normalises by their sum",
		Floor: 4,
		Run:   runC14Additive,
	})
	register(&Rule{
		ID:    "C06.position",
		Props: []string{"C06"},
		Doc:   "GeoJSON positions: appendGeoJSONCoordinate interpreted for the 4 coordinate types writes X, Y and — iff the type is 3D — Z, never M; Feature decoding fails unless \"type\" is present and equals \"Feature\" and \"geometry\" is present",
		Floor: 2,
		Run:   runC06Position,
	})
}

var mustAsRe = regexp.MustCompile(`geom\.\(Geometry\)\.MustAs([A-Za-z]+)\(\$([01])\)`)

func runC09Dispatch(c *Ctx) {
	f := c.P.Func("geom.Intersects")
	if f == nil {
		c.Errorf("anchor geom.Intersects does not resolve")
		return
	}
	byVal, _ := geomTags(c)
	inl := func(g *ssa.Function) bool {
		n := FuncName(g)
		return n == "geom.rank" || strings.HasPrefix(n, "geom.(Geometry).Is") || n == "geom.(Geometry).Type"
	}
	for t1 := 0; t1 < 7; t1++ {
		for t2 := 0; t2 < 7; t2++ {
			construct := fmt.Sprintf("dispatch for (%s, %s)", byVal[int64(t1)].Obj().Name(), byVal[int64(t2)].Obj().Name())
			m := &Model{Num: map[string]float64{"$0.gtype": float64(t1), "$1.gtype": float64(t2)}, Bool: map[string]bool{}, Missing: map[string]bool{}}
			var res []k4val
			var err error
			for round := 0; round < 4; round++ {
				m.Missing = map[string]bool{}
				res, err = k4run(c.P, f, m, inl)
				if err == nil || len(m.Missing) == 0 {
					break
				}
				for k := range m.Missing {
					key := strings.SplitN(k, " ", 2)[1]
					// the number of members of a collection operand, whether asked
					// through NumGeometries or as the length of its member list
					if strings.Contains(key, "NumGeometries") || (strings.HasPrefix(key, "len(") && strings.Contains(key, "GeometryCollection(")) {
						m.Num[key] = 0
					}
				}
			}
			if err != nil || len(res) != 1 {
				c.Undecided(f.Pos(), FuncName(f), construct, fmt.Sprintf("%v %s", err, missingList(m)))
				continue
			}
			got := res[0].String()
			if got == `"panic"` || res[0].s == "panic" {
				c.Bad(f.Pos(), FuncName(f), construct, "this pair of types falls through every arm and reaches the panic at the end of Intersects")
				continue
			}
			bad := ""
			for _, mm := range mustAsRe.FindAllStringSubmatch(got, -1) {
				want := byVal[int64(t1)].Obj().Name()
				if mm[2] == "1" {
					want = byVal[int64(t2)].Obj().Name()
				}
				if mm[1] != want {
					bad = fmt.Sprintf("operand $%s is a %s but the arm converts it with MustAs%s (which panics)", mm[2], want, mm[1])
				}
			}
			if bad != "" {
				c.Bad(f.Pos(), FuncName(f), construct, bad)
			} else {
				c.OK(f.Pos(), FuncName(f), construct, "routed to "+trunc(got))
			}
		}
	}
}

func runC02Fill(c *Ctx) {
	f := c.P.Func("geom.(*doublyConnectedEdgeList).extractIntersectionMatrix")
	if f == nil {
		c.Errorf("anchor extractIntersectionMatrix does not resolve")
		return
	}
	type setCall struct {
		call ssa.CallInstruction
		ch   byte
		site ssa.Instruction // where it happens in extractIntersectionMatrix: the call itself, or the call of the helper it was moved to
	}
	var sets []setCall
	for _, call := range callsTo(f, "geom.(*matrix).set") {
		if k, ok := constInt(call.Common().Args[3]); ok {
			sets = append(sets, setCall{call, byte(k), call.(ssa.Instruction)})
		}
	}
	// writes moved into helpers introduced after the baseline (one per dimension, say)
	eachCall(f, func(hc ssa.CallInstruction) {
		h := staticCallee(hc)
		if h == nil || !isNewHelper(h) || len(h.Blocks) == 0 {
			return
		}
		for _, g := range withNewHelpers(h) {
			for _, call := range callsTo(g, "geom.(*matrix).set") {
				if k, ok := constInt(call.Common().Args[3]); ok {
					sets = append(sets, setCall{call, byte(k), hc.(ssa.Instruction)})
				} else if par, isPar := call.Common().Args[3].(*ssa.Parameter); isPar && g == h {
					// one helper for all dimensions: the dimension is what each call site passes
					if pi := paramIndex(h, par); pi >= 0 && pi < len(hc.Common().Args) {
						if k, ok := constInt(hc.Common().Args[pi]); ok {
							sets = append(sets, setCall{call, byte(k), hc.(ssa.Instruction)})
						}
					}
				}
			}
		}
	})
	if len(sets) != 3 {
		c.Errorf("extractIntersectionMatrix has %d set calls with constant entries, expected 3", len(sets))
	}
	wantRecv := map[byte]string{'0': "vertexRecord", '1': "halfEdgeRecord", '2': "faceRecord"}
	for _, s := range sets {
		construct := fmt.Sprintf("entries of dimension %q", string(s.ch))
		bad := ""
		for _, o := range sets {
			after := false // the write of the lower dimension can execute after this one
			switch {
			case s.site == o.site:
				// both inside one helper call: their order within that helper
				after = s.call.Parent() == o.call.Parent() && s.call.Block() != o.call.Block() && reaches(s.call.Block(), o.call.Block(), nil)
			case s.site.Block() != o.site.Block():
				after = reaches(s.site.Block(), o.site.Block(), nil)
			default:
				after = instrIndex(o.site) > instrIndex(s.site)
			}
			if o.ch < s.ch && after {
				bad = fmt.Sprintf("a write of %q can be followed by a write of the lower dimension %q, which overwrites it", string(s.ch), string(o.ch))
			}
		}
		args := s.call.Common().Args
		for i, wantOp := range []int64{0, 1} {
			loc, ok := args[1+i].(*ssa.Call)
			if !ok {
				bad = "location argument is not a location() call"
				continue
			}
			cal := staticCallee(loc)
			if cal == nil && loc.Call.IsInvoke() && loc.Call.Method.Name() == "location" {
				// the record reaches the helper behind an interface: its kind is the type
				// of what the call site in extractIntersectionMatrix hands over
				if par, isPar := loc.Call.Value.(*ssa.Parameter); isPar {
					if hcall, isCall := s.site.(ssa.CallInstruction); isCall {
						if pi := paramIndex(par.Parent(), par); pi >= 0 && pi < len(hcall.Common().Args) && staticCallee(hcall) == par.Parent() {
							if mi, isMI := hcall.Common().Args[pi].(*ssa.MakeInterface); isMI {
								if rn := namedName(mi.X.Type()); rn != wantRecv[s.ch] {
									bad = fmt.Sprintf("dimension %q entries are taken from %s records, expected %s", string(s.ch), rn, wantRecv[s.ch])
								}
								if k, ok := constInt(loc.Call.Args[0]); !ok || k != wantOp {
									bad = fmt.Sprintf("argument %d of set is the location with respect to operand %d, expected operand %d (the matrix would be transposed)", i+1, k, wantOp)
								}
								continue
							}
						}
					}
				}
			}
			if cal == nil || cal.Name() != "location" {
				bad = "location argument is not a location() call"
				continue
			}
			if rn := namedName(cal.Signature.Recv().Type()); rn != wantRecv[s.ch] {
				bad = fmt.Sprintf("dimension %q entries are taken from %s records, expected %s", string(s.ch), rn, wantRecv[s.ch])
			}
			if k, ok := constInt(loc.Call.Args[1]); !ok || k != wantOp {
				bad = fmt.Sprintf("argument %d of set is the location with respect to operand %d, expected operand %d (the matrix would be transposed)", i+1, k, wantOp)
			}
		}
		c.Check(bad == "", s.call.Pos(), FuncName(f), construct, "written after all lower dimensions, from the right record kind, (locA, locB) in order", bad)
	}
}

func runC11Visit(c *Ctx) {
	rs := c.P.Func("rtree.(*RTree).RangeSearch")
	if rs == nil {
		c.Errorf("anchor rtree.(*RTree).RangeSearch does not resolve")
		return
	}
	// the per-node step: RangeSearch's recursive closure, or a self-recursive
	// function it calls (the same step written as a named function)
	var rec *ssa.Function
	hasNodeParam := func(f *ssa.Function) bool {
		for _, par := range f.Params {
			if st, ok := deref(par.Type()).Underlying().(*types.Struct); ok && par.Type() != deref(par.Type()) {
				for k := 0; k < st.NumFields(); k++ {
					if _, isArr := st.Field(k).Type().Underlying().(*types.Array); isArr {
						return true
					}
				}
			}
		}
		return false
	}
	for _, an := range rs.AnonFuncs {
		if rec == nil && hasNodeParam(an) {
			rec = an
		}
	}
	if rec == nil {
		eachCall(rs, func(ci ssa.CallInstruction) {
			if cal := staticCallee(ci); cal != nil && cal.Blocks != nil && rec == nil {
				eachCall(cal, func(c2 ssa.CallInstruction) {
					if staticCallee(c2) == cal {
						rec = cal
					}
				})
			}
		})
	}
	if rec == nil || len(rec.Params) == 0 {
		// no recursive per-node step (an explicit stack, say): the traversal is judged
		// as a whole, on a modelled tree, by C11.search
		c.OK(rs.Pos(), FuncName(rs), "per-node visit of RangeSearch", "RangeSearch has no recursive per-node step; its traversal is decided as a whole by C11.search")
		return
	}
	// field names are resolved by type, so that renaming them changes nothing
	// the node is the first parameter that points at a struct holding an entry array (a
	// walker object or other context may come before it)
	nodeIdx := 0
	for i, par := range rec.Params {
		if st, ok := deref(par.Type()).Underlying().(*types.Struct); ok && par.Type() != deref(par.Type()) {
			hasArr := false
			for k := 0; k < st.NumFields(); k++ {
				if _, isArr := st.Field(k).Type().Underlying().(*types.Array); isArr {
					hasArr = true
				}
			}
			if hasArr {
				nodeIdx = i
				break
			}
		}
	}
	nodeT, _ := deref(rec.Params[nodeIdx].Type()).Underlying().(*types.Struct)
	if nodeT == nil {
		c.Errorf("anchor: first parameter of %s is not a node", FuncName(rec))
		return
	}
	fEntries, entryT := "", (*types.Struct)(nil)
	fNum := ""
	for i := 0; i < nodeT.NumFields(); i++ {
		f := nodeT.Field(i)
		switch t := f.Type().Underlying().(type) {
		case *types.Array:
			fEntries = canonFieldName(f)
			entryT, _ = t.Elem().Underlying().(*types.Struct)
		case *types.Basic:
			if t.Info()&types.IsInteger != 0 {
				fNum = canonFieldName(f)
			}
		}
	}
	fBox, fChild, fRec := "", "", ""
	if entryT != nil {
		for i := 0; i < entryT.NumFields(); i++ {
			f := entryT.Field(i)
			switch t := f.Type().Underlying().(type) {
			case *types.Struct:
				fBox = canonFieldName(f)
			case *types.Pointer:
				fChild = canonFieldName(f)
			case *types.Basic:
				if t.Info()&types.IsInteger != 0 {
					fRec = canonFieldName(f)
				}
			}
		}
	}
	if fEntries == "" || fNum == "" || fBox == "" || fChild == "" || fRec == "" {
		c.Errorf("anchor: node/entry layout not recognised (entries=%q count=%q box=%q child=%q record=%q)", fEntries, fNum, fBox, fChild, fRec)
		return
	}
	fn := FuncName(rec)
	problem, undec := "", ""
	models := 0
	var fvs []k4val
	for _, fv := range rec.FreeVars {
		k := "fv:" + fv.Name()
		if _, isBox := deref(deref(fv.Type())).Underlying().(*types.Struct); isBox {
			k = "fv:box"
		}
		fvs = append(fvs, k4val{kind: 3, s: k})
	}
	var recArgs []k4val
	ctxMem := map[string]k4val{}
	for i, par := range rec.Params {
		if i == nodeIdx {
			recArgs = append(recArgs, k4val{kind: 3, s: "$0"})
		} else if _, isBox := par.Type().Underlying().(*types.Struct); isBox {
			recArgs = append(recArgs, k4val{kind: 3, s: "fv:box"})
		} else if st, ok := deref(par.Type()).Underlying().(*types.Struct); ok && par.Type() != deref(par.Type()) {
			// a context object (the query box and the callback kept in a struct): its
			// fields stand for what a closure would have captured
			obj := "ctx:" + par.Name()
			recArgs = append(recArgs, k4val{kind: 3, s: obj})
			for k := 0; k < st.NumFields(); k++ {
				fk := obj + "." + canonFieldName(st.Field(k))
				if _, isBox := st.Field(k).Type().Underlying().(*types.Struct); isBox {
					ctxMem[fk] = k4val{kind: 3, s: "fv:box"}
				} else {
					ctxMem[fk] = k4val{kind: 3, s: "fv:" + st.Field(k).Name()}
				}
			}
		} else {
			recArgs = append(recArgs, k4val{kind: 3, s: "fv:" + par.Name()})
		}
	}
	for mask := 0; mask < 64; mask++ {
		models++
		m := &Model{Num: map[string]float64{"$0." + fNum: 3}, Bool: map[string]bool{}, Missing: map[string]bool{}}
		it := &k4interp{p: c.P, m: m, mem: map[string]k4val{}}
		var want []string
		for i := 0; i < 3; i++ {
			ov := mask&(1<<uint(i)) != 0
			leaf := mask&(1<<uint(3+i)) != 0
			m.Bool[fmt.Sprintf("rtree.overlap($0.%s[%d].%s,fv:box)", fEntries, i, fBox)] = ov
			m.Bool[fmt.Sprintf("($0.%s[%d].%s==nil)", fEntries, i, fChild)] = leaf
			m.Num[fmt.Sprintf("$0.%s[%d].%s", fEntries, i, fRec)] = float64(10 + i)
			if ov && leaf {
				want = append(want, fmt.Sprintf("callback(%d)", 10+i))
			}
			if ov && !leaf {
				want = append(want, fmt.Sprintf("recurse(%s[%d].%s)", fEntries, i, fChild))
			}
		}
		it.opaqueCall = func(args []k4val) (string, bool) {
			if len(args) == 1 && args[0].kind == 2 {
				return fmt.Sprintf("callback(%d)", int(args[0].f)), true
			}
			if len(args) == 1 && args[0].kind == 3 {
				return "recurse(" + strings.TrimPrefix(args[0].s, "$0.") + ")", true
			}
			return "", false
		}
		// results of callback/recurse: nil (keep going)
		var err error
		for round := 0; round < 6; round++ {
			it.calls = nil
			it.mem = map[string]k4val{}
			for k, v := range ctxMem {
				it.mem[k] = v
			}
			m.Missing = map[string]bool{}
			_, err = it.call(rec, recArgs, fvs)
			if err == nil || len(m.Missing) == 0 {
				break
			}
			for k := range m.Missing {
				key := strings.SplitN(k, " ", 2)[1]
				if strings.HasPrefix(k, "bool ") && (strings.Contains(key, "!=nil") || strings.Contains(key, "errors.Is")) {
					m.Bool[key] = false
				} else if strings.HasPrefix(k, "bool ") && strings.Contains(key, "==nil") {
					m.Bool[key] = true
				} else if strings.HasPrefix(k, "bool ") && (strings.HasPrefix(key, extName(rec)+"(") || strings.HasPrefix(key, "recurse(")) {
					m.Bool[key] = true // a visit that reports "keep going" as a flag
				}
			}
		}
		if err != nil {
			undec = fmt.Sprintf("%v %s", err, missingList(m))
			break
		}
		var got []string
		for _, cl := range it.calls {
			if strings.HasPrefix(cl, "callback(") || strings.HasPrefix(cl, "recurse(") {
				got = append(got, cl)
			}
		}
		// the recursion closure is called through its cell: it appears as a static call key instead
		for _, cl := range it.calls {
			if strings.HasPrefix(cl, extName(rec)+"(") {
				a := splitTopLevel(strings.TrimSuffix(strings.TrimPrefix(cl, extName(rec)+"("), ")"))
				if nodeIdx < len(a) {
					got = append(got, "recurse("+strings.TrimPrefix(a[nodeIdx], "$0.")+")")
				}
			}
		}
		if strings.Join(sortedCopy(got), " ") != strings.Join(sortedCopy(want), " ") {
			problem = fmt.Sprintf("for a node whose 3 entries have overlap=%v, leaf=%v the visit is [%s]; exact search requires [%s]", bits(mask, 0), bits(mask, 3), strings.Join(got, " "), strings.Join(want, " "))
			break
		}
	}
	reportK4(c, rec, "per-node visit of RangeSearch", undec, problem, fmt.Sprintf("callback exactly on overlapping leaf entries and recursion exactly into overlapping children, in all %d models", models))
	_ = fn

	// queue ordering
	less := c.P.Func("rtree.(*entriesQueue).Less")
	if less == nil {
		c.Errorf("anchor entriesQueue.Less does not resolve")
		return
	}
	qEntries, qOrigin := "", ""
	if qt, ok := deref(less.Params[0].Type()).Underlying().(*types.Struct); ok {
		for i := 0; i < qt.NumFields(); i++ {
			switch qt.Field(i).Type().Underlying().(type) {
			case *types.Slice:
				qEntries = canonFieldName(qt.Field(i))
			case *types.Struct:
				qOrigin = canonFieldName(qt.Field(i))
			}
		}
	}
	if qEntries == "" || qOrigin == "" {
		c.Errorf("anchor: entriesQueue layout not recognised")
		return
	}
	m := &Model{Num: map[string]float64{}, Bool: map[string]bool{}, Missing: map[string]bool{}}
	bad := ""
	for _, d := range [][2]float64{{1, 2}, {2, 1}, {3, 3}} {
		it := &k4interp{p: c.P, m: m, mem: map[string]k4val{}}
		it.mem["$0."+qEntries] = k4val{kind: 8, s: "Q", ln: 2, cp: 2}
		it.mem["Q[0]"] = k4val{kind: 3, s: "E0"}
		it.mem["Q[1]"] = k4val{kind: 3, s: "E1"}
		m.Num["rtree.squaredEuclideanDistance(E0."+fBox+",$0."+qOrigin+")"] = d[0]
		m.Num["rtree.squaredEuclideanDistance(E1."+fBox+",$0."+qOrigin+")"] = d[1]
		res, err := it.call(less, []k4val{{kind: 3, s: "$0"}, {kind: 2, f: 0}, {kind: 2, f: 1}}, nil)
		if err != nil || len(res) != 1 || res[0].kind != 1 {
			bad = fmt.Sprintf("cannot interpret Less: %v %s", err, missingList(m))
			break
		}
		if res[0].b != (d[0] < d[1]) {
			bad = fmt.Sprintf("Less(0,1) with distances %v,%v is %v: the heap must order by increasing box distance to the query origin", d[0], d[1], res[0].b)
		}
	}
	c.Check(bad == "", less.Pos(), FuncName(less), "priority order", "Less(i,j) = dist(entry i, origin) < dist(entry j, origin)", bad)
}

func sortedCopy(s []string) []string {
	o := append([]string{}, s...)
	for i := range o {
		for j := i + 1; j < len(o); j++ {
			if o[j] < o[i] {
				o[i], o[j] = o[j], o[i]
			}
		}
	}
	return o
}

func bits(mask, off int) []bool {
	return []bool{mask&(1<<uint(off)) != 0, mask&(1<<uint(off+1)) != 0, mask&(1<<uint(off+2)) != 0}
}

func runC14Additive(c *Ctx) {
	type spec struct{ fn, count, member, measure string }
	specs := []spec{
		{"geom.(MultiPolygon).Area", "geom.(MultiPolygon).NumPolygons($0)", "geom.(MultiPolygon).PolygonN($0,%d)", "geom.(Polygon).Area(%s,$1)"},
		{"geom.(MultiLineString).Length", "geom.(MultiLineString).NumLineStrings($0)", "geom.(MultiLineString).LineStringN($0,%d)", "geom.(LineString).Length(%s)"},
		{"geom.(GeometryCollection).Area", "geom.(GeometryCollection).NumGeometries($0)", "geom.(GeometryCollection).GeometryN($0,%d)", "geom.(Geometry).Area(%s,$1)"},
		{"geom.(GeometryCollection).Length", "geom.(GeometryCollection).NumGeometries($0)", "geom.(GeometryCollection).GeometryN($0,%d)", "geom.(Geometry).Length(%s)"},
	}
	for _, sp := range specs {
		f := c.P.Func(sp.fn)
		if f == nil {
			c.Errorf("anchor %s does not resolve", sp.fn)
			continue
		}
		m := &Model{Num: map[string]float64{sp.count: 2}, Bool: map[string]bool{}, Missing: map[string]bool{}}
		vals := []float64{3.5, 10.25}
		var res []k4val
		var err error
		for round := 0; round < 8; round++ {
			m.Missing = map[string]bool{}
			res, err = k4run(c.P, f, m, nil)
			// (a sum that a helper computes comes back unevaluated while the model
			// still lacks what the helper asks for)
			if (err == nil && len(res) == 1 && res[0].kind == 2) || len(m.Missing) == 0 {
				break
			}
			for k := range m.Missing {
				key := strings.SplitN(k, " ", 2)[1]
				for i := 0; i < 2; i++ {
					mem := fmt.Sprintf(sp.member, i)
					// direct field access variants (m.polys[i]) are also accepted
					if strings.Contains(key, mem) || strings.Contains(key, fmt.Sprintf("[%d]", i)) {
						m.Num[key] = vals[i]
					}
				}
				if strings.HasPrefix(key, "len(") {
					m.Num[key] = 2
				}
			}
		}
		construct := "sum over members"
		switch {
		case err != nil || len(res) != 1:
			c.Undecided(f.Pos(), FuncName(f), construct, fmt.Sprintf("%v %s", err, missingList(m)))
		case res[0].kind != 2 || res[0].f != vals[0]+vals[1]:
			c.Bad(f.Pos(), FuncName(f), construct, fmt.Sprintf("with two members measuring %v and %v the result is %s, additivity requires %v%s", vals[0], vals[1], res[0], vals[0]+vals[1], missingNote(m)))
		default:
			c.OK(f.Pos(), FuncName(f), construct, "result is exactly the sum of the members' measures (2-member model)")
		}
	}
}

func runC06Position(c *Ctx) {
	f := c.P.Func("geom.appendGeoJSONCoordinate")
	if f == nil {
		c.Errorf("anchor geom.appendGeoJSONCoordinate does not resolve")
		return
	}
	inl := func(g *ssa.Function) bool {
		n := FuncName(g)
		return n == "geom.(CoordinatesType).Is3D" || n == "geom.(CoordinatesType).IsMeasured"
	}
	problem, undec := "", ""
	for ct := 0; ct < 4; ct++ {
		m := &Model{Num: map[string]float64{"$1.Type": float64(ct), "$1.XY.X": 1, "$1.XY.Y": 2, "$1.Z": 3, "$1.M": 4}, Bool: map[string]bool{}, Missing: map[string]bool{}}
		it := &k4interp{p: c.P, m: m, mem: map[string]k4val{}, inline: inl}
		_, err := it.call(f, []k4val{{kind: 8, s: "D", ln: 0, cp: 0}, {kind: 3, s: "$1"}}, nil)
		if err != nil {
			undec = fmt.Sprintf("%v %s", err, missingList(m))
			break
		}
		var got []string
		for _, cl := range it.calls {
			if strings.HasPrefix(cl, "geom.appendFloat(") {
				v := cl[strings.LastIndex(cl, ",")+1 : len(cl)-1]
				got = append(got, map[string]string{"1": "X", "2": "Y", "3": "Z", "4": "M"}[v])
			}
		}
		want := []string{"X", "Y"}
		if ct&1 != 0 {
			want = append(want, "Z")
		}
		if strings.Join(got, ",") != strings.Join(want, ",") {
			problem = fmt.Sprintf("for coordinates type %d the position is written as [%s], RFC 7946 requires [%s] (M is never written)", ct, strings.Join(got, ","), strings.Join(want, ","))
		}
	}
	reportK4(c, f, "ordinates of a GeoJSON position", undec, problem, "X, Y, and Z iff 3D; never M")

	// Feature decoding
	fu := c.P.Func("geom.(*GeoJSONFeature).UnmarshalJSON")
	if fu == nil {
		c.Errorf("anchor GeoJSONFeature.UnmarshalJSON does not resolve")
		return
	}
	// structural: a comparison of a string with "Feature" whose failure leads to an error return,
	// and lookups of "type" and "geometry" whose !ok leads to an error return
	cmpFeature, hasType, hasGeom := false, false, false
	group := withNewHelpers(fu)
	// the names a comma-ok lookup can be made with: a constant, or the constants
	// its (new) helper is called with
	namesOf := func(g *ssa.Function, idx ssa.Value) []string {
		if s, ok := constString(idx); ok {
			return []string{s}
		}
		par, ok := idx.(*ssa.Parameter)
		if !ok || g == fu {
			return nil
		}
		pi := paramIndex(g, par)
		var out []string
		for _, h := range group {
			eachCall(h, func(call ssa.CallInstruction) {
				if staticCallee(call) == g && pi >= 0 && pi < len(call.Common().Args) {
					if s, ok := constString(call.Common().Args[pi]); ok {
						out = append(out, s)
					}
				}
			})
		}
		return out
	}
	// a missing member must end in an error: where the ok flag is branched on
	// directly, the not-ok side returns a non-nil error
	missingIsError := func(x *ssa.Lookup) bool {
		for _, r := range *x.Referrers() {
			ex, ok := r.(*ssa.Extract)
			if !ok || ex.Index != 1 {
				continue
			}
			for _, r2 := range *ex.Referrers() {
				ifi, ok := r2.(*ssa.If)
				if !ok {
					continue
				}
				nb := ifi.Block().Succs[1]
				if ret, ok := nb.Instrs[len(nb.Instrs)-1].(*ssa.Return); ok && len(nb.Instrs) <= 4 && len(ret.Results) > 0 && isErrorType(ret.Results[len(ret.Results)-1].Type()) {
					return provablyNonNilErr(ret)
				}
			}
		}
		return true // another shape: not judged here
	}
	for _, g := range group {
		eachInstr(g, func(in ssa.Instruction) {
			switch x := in.(type) {
			case *ssa.BinOp:
				if s, ok := constString(x.Y); ok && s == "Feature" {
					cmpFeature = true
				}
				if s, ok := constString(x.X); ok && s == "Feature" {
					cmpFeature = true
				}
			case *ssa.Lookup:
				if !x.CommaOk || !missingIsError(x) {
					return
				}
				for _, s := range namesOf(g, x.Index) {
					if s == "type" {
						hasType = true
					}
					if s == "geometry" {
						hasGeom = true
					}
				}
			}
		})
	}
	c.Check(cmpFeature && hasType && hasGeom, fu.Pos(), FuncName(fu), "required members of a Feature", "\"type\" must exist and equal \"Feature\"; \"geometry\" must exist", "Feature decoding no longer checks that \"type\" exists and equals \"Feature\" and that \"geometry\" exists")
}

// missingNote: what the model still lacked, for diagnosis of a symbolic result.
func missingNote(m *Model) string {
	if l := missingList(m); l != "" {
		return " (model lacks: " + l + ")"
	}
	return ""
}
