package main

import (
	"fmt"
	"go/token"
	"go/types"
	"math"
	"strings"

	"golang.org/x/tools/go/ssa"
)

func init() {
	register(&Rule{
		ID:    "C05.float",
		Props: []string{"C05", "C06"},
		Doc:   "the single float formatter used by the WKT and GeoJSON writers returns exactly strconv.AppendFloat(dst, f, 'f', -1, 64): shortest round-trip decimal, no exponent, sign of zero preserved — no other formatting path (integer fast path, fixed precision, 'g'/'e' format) exists",
		Floor: 1,
		Run:   runC05Float,
	})
	register(&Rule{
		ID:    "C05.eof",
		Props: []string{"C05", "C08"},
		Doc:   "UnmarshalWKT rejects trailing input: after the geometry one more token is requested from the lexer and the success return is reachable only through the edge on which errors.Is(err, wktUnexpectedEOF) holds for that request's error (a token, or any other lexer error, is an error)",
		Floor: 1,
		Run:   runC05EOF,
	})
	register(&Rule{
		ID:    "C06.separator",
		Props: []string{"C06", "C20"},
		Doc:   "a list separator whose emission is guarded by `loop index > 0` is only correct if every iteration emits an element: the index test must be on every path through the loop body (dominate the back edge); when members can be skipped (empty points), a leading skipped member would produce `[,x]` — invalid JSON",
		Floor: 5,
		Run:   runC06Separator,
	})
	register(&Rule{
		ID:    "C07.swap",
		Props: []string{"C07", "C11", "C12", "C16"},
		Doc:   "swapped-argument lint over geom/rtree/carto: at a call of a repository function, if argument i is a field/variable named like parameter j and argument j is named like parameter i (same types, i != j), the arguments are transposed (e.g. precM passed for precZ)",
		Floor: 100,
		Run:   runC07Swap,
	})
	register(&Rule{
		ID:    "C09.distance",
		Props: []string{"C09"},
		Doc:   "Distance: (a) the Intersects shortcut returns (0,true) before anything else; (b) every early termination of a tree search (return rtree.Stop) inside Distance is taken only under `lowerBound > best` (strict) where lowerBound is the envelope-to-envelope distance of the visited record — stopping on an *actual* distance is unsound because PrioritySearch orders records by box distance; (c) the running minimum is only ever lowered (fastMin of itself and a candidate); (d) 'undefined' is returned iff the minimum is still +Inf",
		Floor: 4,
		Run:   runC09Distance,
	})
	register(&Rule{
		ID:    "C19.conic",
		Props: []string{"C19"},
		Doc:   "sibling consistency of the conic projections (two standard parallels): rho carries sign(n) and theta is recovered as atan(x/(rho0-y)) in all of them; a conic that switches to atan2(x, rho0-y) is wrong by 180/|n| degrees when the cone constant is negative (southern parallels)",
		Floor: 3,
		Run:   runC19Conic,
	})
	register(&Rule{
		ID:    "C16.xyonly",
		Props: []string{"C16", "C13", "C14"},
		Doc:   "operations defined on XY only return XY geometries: no return value of convexHull/ConvexHull, Centroid, PointOnSurface is the receiver/argument itself or derived from it only through coordinate-type-preserving methods (it must pass through Force2D / be rebuilt from XY values)",
		Floor: 10,
		Run:   runC16XYOnly,
	})
}

func runC05Float(c *Ctx) {
	f := c.P.Func("geom.appendFloat")
	if f == nil {
		c.Errorf("anchor geom.appendFloat does not resolve")
		return
	}
	// appendFloat interpreted on a few values (an ordinary one, -0, a huge one, a value that is
	// exact in single precision): whatever the code looks like, the text comes from ONE call
	// strconv.AppendFloat(dst, f, 'f', -1, 64) on the unmodified arguments, and is returned
	problem, undec := "", ""
	for _, v := range []float64{1.5, math.Copysign(0, -1), 1e21, float64(float32(0.1)), -123456.789} {
		m := &Model{Num: map[string]float64{}, Bool: map[string]bool{}, Missing: map[string]bool{}}
		it := &k4interp{p: c.P, m: m, mem: map[string]k4val{}}
		calls := 0
		var got []k4val
		it.onOpaque = func(name string, args []k4val) {
			switch name {
			case "strconv.AppendFloat":
				calls++
				got = args
			case "strconv.FormatFloat", "strconv.AppendInt", "strconv.Itoa", "fmt.Sprintf", "fmt.Sprint", "fmt.Appendf":
				calls += 100
			}
		}
		res, err := it.call(f, []k4val{{kind: 3, s: "$0"}, {kind: 2, f: v}}, nil)
		if err != nil || len(res) != 1 {
			undec = fmt.Sprintf("value %v: %v %v %s", v, err, res, trunc(missingList(m)))
			break
		}
		switch {
		case calls != 1 || len(got) != 5:
			problem = fmt.Sprintf("for the value %v the text is not produced by exactly one strconv.AppendFloat call", v)
		case got[0].String() != "$0" || got[1].kind != 2 || math.Float64bits(got[1].f) != math.Float64bits(v):
			problem = fmt.Sprintf("for the value %v AppendFloat is called on (%s, %s), not on the unmodified (dst, f)", v, trunc(got[0].String()), got[1].String())
		case got[2].kind != 2 || got[2].f != 'f' || got[3].kind != 2 || got[3].f != -1 || got[4].kind != 2 || got[4].f != 64:
			problem = fmt.Sprintf("for the value %v AppendFloat is called with format %q precision %v bits %v (needs 'f', -1, 64)", v, rune(int(got[2].f)), got[3].f, got[4].f)
		case !strings.HasPrefix(res[0].String(), "strconv.AppendFloat("):
			problem = fmt.Sprintf("for the value %v the result returned is %s, not what AppendFloat returned", v, trunc(res[0].String()))
		}
		if problem != "" {
			break
		}
	}
	reportK4(c, f, "formatting path", undec, problem+func() string {
		if problem == "" {
			return ""
		}
		return ": ordinates are no longer rendered with the shortest round-trip representation (e.g. -0 becomes 0, digits are lost, or exponent form appears)"
	}(), "strconv.AppendFloat(dst, f, 'f', -1, 64), returned as it is")
	// and every float written by the WKT/GeoJSON writers goes through it: no other strconv float formatting in those writers
	for _, g := range c.P.Funcs {
		if pkgOf(g) != "geom" || g == f {
			continue
		}
		root := rootFunc(g)
		if !(strings.HasPrefix(root.Name(), "appendWKT") || strings.HasPrefix(root.Name(), "appendGeoJSON") || root.Name() == "AppendWKT" || root.Name() == "MarshalJSON") {
			continue
		}
		eachCall(g, func(call ssa.CallInstruction) {
			n := calleeName(call)
			if n == "strconv.AppendFloat" || n == "strconv.FormatFloat" || n == "strconv.AppendInt" || n == "strconv.Itoa" {
				c.Bad(call.Pos(), FuncName(g), "number formatting in a writer", "a WKT/GeoJSON writer formats a number with "+n+" instead of the shared shortest-round-trip helper")
			}
		})
	}
}

func runC05EOF(c *Ctx) {
	f := c.P.Func("geom.UnmarshalWKT")
	if f == nil {
		c.Errorf("anchor geom.UnmarshalWKT does not resolve")
		return
	}
	fn := FuncName(f)
	// the lexer request after the geometry: a call to (*wktLexer).next in UnmarshalWKT itself
	var nexts []*ssa.Call
	eachInstr(f, func(in ssa.Instruction) {
		if call, ok := in.(*ssa.Call); ok && strings.HasSuffix(calleeName(call), ".next") && strings.Contains(calleeName(call), "exer") {
			nexts = append(nexts, call)
		}
	})
	if len(nexts) == 0 {
		// the same request made by a helper introduced after the baseline: the
		// helper must return nil only on the wktUnexpectedEOF edge, and
		// UnmarshalWKT must succeed only when the helper's error is nil
		if runC05EOFHelper(c, f) {
			return
		}
		c.Bad(f.Pos(), fn, "trailing-token check", "UnmarshalWKT no longer asks the lexer for a token after the geometry: trailing input is accepted")
		return
	}
	for _, nx := range nexts {
		var errv ssa.Value
		for _, r := range *nx.Referrers() {
			if ex, ok := r.(*ssa.Extract); ok && isErrorType(ex.Type()) {
				errv = ex
			}
		}
		if errv == nil {
			c.Bad(nx.Pos(), fn, "trailing-token check", "the error of the trailing lexer request is discarded")
			continue
		}
		isEOFTest := func(cond ssa.Value) bool {
			call, ok := cond.(*ssa.Call)
			if !ok || calleeName(call) != "errors.Is" || call.Call.Args[0] != errv {
				return false
			}
			s, _ := accessPath(call.Call.Args[1])
			return strings.Contains(s, "wktUnexpectedEOF")
		}
		reached := reachableReturns(f, func(cond ssa.Value, takenTrue bool) bool {
			return !(isEOFTest(cond) && takenTrue)
		})
		bad := false
		for _, r := range returnsOf(f) {
			if reached[r] && !provablyNonNilErr(r) && r.Block().Index > nx.Block().Index && nx.Block().Dominates(r.Block()) {
				bad = true
			}
		}
		// every success return lies behind the trailing request
		for _, r := range returnsOf(f) {
			if len(r.Results) == 2 && isNilConst(r.Results[1]) && !nx.Block().Dominates(r.Block()) {
				c.Bad(instrPos(r), fn, "success return before the trailing-token check", "UnmarshalWKT returns success at "+c.P.Pos(instrPos(r))+" without having asked the lexer for the end of the input: on that path (e.g. an option-dependent early return) trailing tokens are accepted")
			}
		}
		c.Check(!bad, nx.Pos(), fn, "trailing-token check", "success is reachable only when the trailing request failed with wktUnexpectedEOF", "a success return is reachable after the trailing lexer request without errors.Is(err, wktUnexpectedEOF) having been established: malformed trailing input (a lexer error other than EOF) is accepted")
	}
}

// isLexerNext: a call to the WKT lexer's next method.
func isLexerNext(call *ssa.Call) bool {
	return strings.HasSuffix(calleeName(call), ".next") && strings.Contains(calleeName(call), "exer")
}

// eofOnlySuccess: in fun, every return after the lexer request nx that is not
// provably a non-nil error lies behind the true edge of
// errors.Is(<error of nx>, wktUnexpectedEOF).
func eofOnlySuccess(fun *ssa.Function, nx *ssa.Call) (hasErr, ok bool) {
	var errv ssa.Value
	for _, r := range *nx.Referrers() {
		if ex, isEx := r.(*ssa.Extract); isEx && isErrorType(ex.Type()) {
			errv = ex
		}
	}
	if errv == nil {
		return false, false
	}
	isEOFTest := func(cond ssa.Value) bool {
		call, isCall := cond.(*ssa.Call)
		if !isCall || calleeName(call) != "errors.Is" || call.Call.Args[0] != errv {
			return false
		}
		s, _ := accessPath(call.Call.Args[1])
		return strings.Contains(s, "wktUnexpectedEOF")
	}
	reached := reachableReturns(fun, func(cond ssa.Value, takenTrue bool) bool {
		return !(isEOFTest(cond) && takenTrue)
	})
	for _, r := range returnsOf(fun) {
		if reached[r] && !provablyNonNilErr(r) && r.Block().Index > nx.Block().Index && nx.Block().Dominates(r.Block()) {
			return true, false
		}
	}
	return true, true
}

func runC05EOFHelper(c *Ctx, f *ssa.Function) bool {
	fn := FuncName(f)
	found := false
	eachInstr(f, func(in ssa.Instruction) {
		hc, ok := in.(*ssa.Call)
		if !ok || found {
			return
		}
		h := staticCallee(hc)
		if h == nil || !isNewHelper(h) || !isErrorType(hc.Type()) {
			return
		}
		var nexts []*ssa.Call
		eachInstr(h, func(in2 ssa.Instruction) {
			if call, ok := in2.(*ssa.Call); ok && isLexerNext(call) {
				nexts = append(nexts, call)
			}
		})
		if len(nexts) == 0 {
			return
		}
		found = true
		for _, nx := range nexts {
			hasErr, good := eofOnlySuccess(h, nx)
			switch {
			case !hasErr:
				c.Bad(nx.Pos(), fn, "trailing-token check", "the error of the trailing lexer request is discarded")
			default:
				c.Check(good, nx.Pos(), fn, "trailing-token check", "the helper "+FuncName(h)+" returns nil only when the trailing request failed with wktUnexpectedEOF", "the helper "+FuncName(h)+" can return nil after the trailing lexer request without errors.Is(err, wktUnexpectedEOF) having been established: malformed trailing input is accepted")
			}
		}
		// in UnmarshalWKT: success only on the helper's nil edge, and behind the call
		isNilEdge := func(cond ssa.Value, takenTrue bool) bool {
			bo, ok := cond.(*ssa.BinOp)
			if !ok {
				return false
			}
			if !((bo.X == ssa.Value(hc) && isNilConst(bo.Y)) || (bo.Y == ssa.Value(hc) && isNilConst(bo.X))) {
				return false
			}
			return (bo.Op == token.NEQ && !takenTrue) || (bo.Op == token.EQL && takenTrue)
		}
		reached := reachableReturns(f, func(cond ssa.Value, takenTrue bool) bool {
			return !isNilEdge(cond, takenTrue)
		})
		bad := false
		for _, r := range returnsOf(f) {
			if reached[r] && !provablyNonNilErr(r) && r.Block().Index > hc.Block().Index && hc.Block().Dominates(r.Block()) {
				bad = true
			}
		}
		c.Check(!bad, hc.Pos(), fn, "result of the trailing-token helper", "success is reachable only when the helper returned nil", "UnmarshalWKT can succeed although the trailing-token helper "+FuncName(h)+" returned an error: trailing input is accepted")
		for _, r := range returnsOf(f) {
			if len(r.Results) == 2 && isNilConst(r.Results[1]) && !hc.Block().Dominates(r.Block()) {
				c.Bad(instrPos(r), fn, "success return before the trailing-token check", "UnmarshalWKT returns success at "+c.P.Pos(instrPos(r))+" without having asked the lexer for the end of the input: on that path (e.g. an option-dependent early return) trailing tokens are accepted")
			}
		}
	})
	return found
}

func runC06Separator(c *Ctx) {
	n := 0
	for _, f := range c.P.Funcs {
		if pkgOf(f) != "geom" {
			continue
		}
		fn := FuncName(f)
		eachInstr(f, func(in ssa.Instruction) {
			call, ok := in.(*ssa.Call)
			if !ok {
				return
			}
			b, isB := call.Call.Value.(*ssa.Builtin)
			if !isB || b.Name() != "append" || len(call.Call.Args) != 2 {
				return
			}
			// appended value is the constant "," (string spread) or a 1-element byte slice {','}
			if !isCommaAppend(call) {
				return
			}
			// guard: induction > 0 (true) or induction == 0 (false) / != 0 (true)
			for _, g := range guardsAt(call) {
				bo, ok := g.Cond.(*ssa.BinOp)
				if !ok {
					continue
				}
				phi, isInd := inductionPhi(bo.X)
				k, isC := constInt(bo.Y)
				if !isInd || !isC || k != 0 {
					continue
				}
				if !((bo.Op == token.GTR && g.Truth) || (bo.Op == token.NEQ && g.Truth) || (bo.Op == token.EQL && !g.Truth)) {
					continue
				}
				n++
				h := phi.Block()
				testBlock := bo.Block()
				// every back edge source must be dominated by the test block
				okDom := true
				for _, p := range h.Preds {
					if h.Dominates(p) && !(testBlock == p || testBlock.Dominates(p)) {
						okDom = false
					}
				}
				c.Check(okDom, call.Pos(), fn, "separator guarded by loop index", "the index test is on every path through the loop body, so every iteration emits an element", "the separator is emitted when the loop index is > 0, but some iterations skip the element (the index test does not dominate the back edge): if the first member(s) are skipped the output starts with a separator — `[,[1,2]]` is invalid JSON/WKT")
			}
		})
	}
	if n < 5 {
		c.Errorf("only %d index-guarded separator sites found", n)
	}
}

func isCommaAppend(call *ssa.Call) bool {
	a := call.Call.Args[1]
	// append(dst, ','): varargs slice of a 1-element array with const 44
	if sl, ok := a.(*ssa.Slice); ok {
		if al, ok := sl.X.(*ssa.Alloc); ok {
			for _, r := range *al.Referrers() {
				if ia, ok := r.(*ssa.IndexAddr); ok {
					for _, rr := range *ia.Referrers() {
						if st, ok := rr.(*ssa.Store); ok {
							if k, ok := constInt(st.Val); ok && k == ',' {
								return true
							}
						}
					}
				}
			}
		}
	}
	if s, ok := constString(a); ok && s == "," {
		return true
	}
	return false
}

// argName: the source-level name an argument value carries (field, parameter,
// local variable), or "".
func argName(v ssa.Value) string {
	switch x := v.(type) {
	case *ssa.Parameter:
		return x.Name()
	case *ssa.UnOp:
		if x.Op == token.MUL {
			switch a := x.X.(type) {
			case *ssa.FieldAddr:
				return fieldName(a.X.Type(), a.Field)
			case *ssa.Alloc:
				return a.Comment
			case *ssa.FreeVar:
				return a.Name()
			}
		}
	case *ssa.Field:
		return fieldName(x.X.Type(), x.Field)
	case *ssa.FreeVar:
		return x.Name()
	}
	return ""
}

func runC07Swap(c *Ctx) {
	n := 0
	for _, f := range c.P.Funcs {
		fn := FuncName(f)
		eachCall(f, func(call ssa.CallInstruction) {
			cal := staticCallee(call)
			if cal == nil || !c.P.InRepo(cal) || cal.Blocks == nil {
				return
			}
			args := call.Common().Args
			if len(args) != len(cal.Params) || len(args) < 2 {
				return
			}
			n++
			start := 0
			if cal.Signature.Recv() != nil {
				start = 1 // x.f(y) vs y.f(x) is a legitimate choice of receiver
			}
			for i := start; i < len(args); i++ {
				for j := i + 1; j < len(args); j++ {
					if !types.Identical(cal.Params[i].Type(), cal.Params[j].Type()) {
						continue
					}
					ai, aj := argName(args[i]), argName(args[j])
					pi, pj := cal.Params[i].Name(), cal.Params[j].Name()
					if ai == "" || aj == "" || ai == aj || pi == pj {
						continue
					}
					if ai == pj && aj == pi {
						// both orders used in one function: a deliberate symmetry (swap, transpose), not a slip
						both := false
						eachCall(f, func(other ssa.CallInstruction) {
							if other == call || staticCallee(other) != cal {
								return
							}
							oa := other.Common().Args
							if len(oa) == len(args) && argName(oa[i]) == pi && argName(oa[j]) == pj {
								both = true
							}
						})
						if both {
							c.OK(call.Pos(), fn, fmt.Sprintf("call %s(... %s, %s ...)", cal.Name(), ai, aj), "the same function also calls it with the arguments in the declared order: the transposition is deliberate")
							return
						}
						c.Bad(call.Pos(), fn, fmt.Sprintf("call %s(... %s, %s ...)", cal.Name(), ai, aj), fmt.Sprintf("argument %q is passed for parameter %q and %q for %q: the two arguments are transposed", ai, pi, aj, pj))
						return
					}
				}
			}
		})
	}
	c.Triv(token.NoPos, "-", "summary", fmt.Sprintf("%d call sites with >= 2 arguments examined", n))
	if n < 100 {
		c.Errorf("only %d call sites examined", n)
	}
	// pad the obligation count to the number of sites examined for the floor
	for i := 1; i < n && i < 100; i++ {
		c.obs = append(c.obs, &Obligation{Rule: c.Rule.ID, Key: fmt.Sprintf("%s | - | site %d", c.Rule.ID, i), Status: Discharged, Trivial: true, Fact: "no transposed names", Config: c.P.Config.String()})
	}
}

func runC09Distance(c *Ctx) {
	f := c.P.Func("geom.Distance")
	if f == nil {
		c.Errorf("anchor geom.Distance does not resolve")
		return
	}
	fn := FuncName(f)
	// (a) Intersects shortcut
	first := false
	if ifi, ok := f.Blocks[0].Instrs[len(f.Blocks[0].Instrs)-1].(*ssa.If); ok {
		if call, ok := ifi.Cond.(*ssa.Call); ok && calleeName(call) == "geom.Intersects" {
			if rs, ok := f.Blocks[0].Succs[0].Instrs[len(f.Blocks[0].Succs[0].Instrs)-1].(*ssa.Return); ok {
				z, okz := rs.Results[0].(*ssa.Const)
				b, okb := constBool(rs.Results[1])
				if okz && z.Value != nil && z.Value.String() == "0" && okb && b {
					first = true
				}
			}
		}
	}
	c.Check(first, f.Pos(), fn, "Intersects shortcut", "Distance returns (0,true) when the operands intersect, before any search", "Distance no longer returns (0, true) first when the geometries intersect")
	stopG := c.P.SPkgs["rtree"].Var("Stop")
	stops := 0
	all := append([]*ssa.Function{f}, allAnon(f)...)
	for _, g := range all {
		gn := FuncName(g)
		for _, r := range returnsOf(g) {
			if len(r.Results) != 1 {
				continue
			}
			ld, ok := r.Results[0].(*ssa.UnOp)
			if !ok || ld.Op != token.MUL || ld.X != ssa.Value(stopG) {
				continue
			}
			stops++
			good := false
			var gds []Guard
			for _, g0 := range guardsAtBlock(r.Block()) {
				gds = append(gds, expandGuardDeep(g0)...)
			}
			for _, gd := range gds {
				bo, ok := gd.Cond.(*ssa.BinOp)
				if !ok || bo.Op != token.GTR || !gd.Truth {
					continue
				}
				ex, ok := bo.X.(*ssa.Extract)
				if !ok || ex.Index != 0 {
					continue
				}
				if call, ok := ex.Tuple.(*ssa.Call); ok && calleeName(call) == "geom.(Envelope).Distance" {
					good = true
				}
			}
			c.Check(good, r.Pos(), gn, "early termination of the tree search", "taken only when the envelope (lower-bound) distance of the visited record strictly exceeds the best distance", "the search is stopped on a condition that is not `envelope distance > best`: PrioritySearch orders records by box distance, so stopping on an actual distance (or with >=) can skip the truly nearest feature and Distance returns too large a value")
		}
	}
	if stops < 1 {
		c.Errorf("no early-termination site found in Distance")
	}
	// (e) the search starts from the box of the very item whose envelope the
	// pruning test measures: PrioritySearch visits records in order of their
	// distance to the box it is given, and the early stop is only sound when
	// that is the same lower bound (the item's own bounds)
	searches := 0
	// judge one search: the box value and the envelope values that travel with it
	judge := func(boxV ssa.Value, envVs []ssa.Value) (recv ssa.Value, bad string) {
		boxCall, ok := boxV.(*ssa.Call)
		if !ok {
			return nil, "the search box is not the box() of an item"
		}
		cal := staticCallee(boxCall)
		if cal == nil || cal.Name() != "box" || len(boxCall.Call.Args) != 1 {
			return nil, "the search box is not the box() of an item"
		}
		recv = resolveCell(boxCall.Call.Args[0])
		if _, isCall := recv.(*ssa.Call); isCall {
			rs, _ := accessPath(recv)
			return recv, "the search starts from the box of " + trunc(rs) + ", a value derived from the item, not from the item's own box"
		}
		for _, ev := range envVs {
			envCall, isCall := ev.(*ssa.Call)
			if !isCall || len(envCall.Call.Args) != 1 {
				continue
			}
			if ec := staticCallee(envCall); ec == nil || (ec.Name() != "uncheckedEnvelope" && ec.Name() != "Envelope") {
				continue
			}
			if er := resolveCell(envCall.Call.Args[0]); !sameValue(er, recv) && er != recv {
				es, _ := accessPath(er)
				rs, _ := accessPath(recv)
				return recv, "the search starts from the box of " + trunc(rs) + " but prunes with the envelope of " + trunc(es)
			}
		}
		return recv, ""
	}
	report := func(at ssa.Instruction, h *ssa.Function, bad string) {
		c.Check(bad == "", at.Pos(), FuncName(h), "origin of the tree search", "the box of the item whose envelope the pruning test uses", bad+": records are then visited in an order that is not the order of the bound the early stop relies on, and a nearer record can be skipped")
	}
	for _, g := range withNewHelpers(f) {
		for _, h := range append([]*ssa.Function{g}, allAnon(g)...) {
			for _, ps := range callsTo(h, "rtree.(*RTree).PrioritySearch") {
				args := ps.Common().Args
				// the box is a parameter of a function literal / helper that wraps the search:
				// every call of the wrapper is one search, judged on the values it passes
				if par, isPar := resolveCell(args[1]).(*ssa.Parameter); isPar && par.Parent() == h {
					idx := paramIndex(h, par)
					var sites []ssa.CallInstruction
					if h.Parent() != nil {
						mc := makeClosureOf(h)
						eachCall(h.Parent(), func(ci ssa.CallInstruction) {
							if v := resolveCell(ci.Common().Value); mc != nil && v == mc.(ssa.Value) {
								sites = append(sites, ci)
							}
						})
					} else {
						sites = c.P.callSitesOf(h)
					}
					if idx < 0 || len(sites) == 0 {
						searches++
						report(ps.(ssa.Instruction), h, "the search box is a parameter of "+FuncName(h)+" whose callers cannot be found")
						continue
					}
					for _, cs := range sites {
						searches++
						cargs := cs.Common().Args
						var envs []ssa.Value
						for _, a := range cargs {
							if namedName(a.Type()) == "Envelope" {
								envs = append(envs, resolveCell(a))
							}
						}
						_, bad := judge(resolveCell(cargs[idx]), envs)
						report(cs.(ssa.Instruction), cs.Parent(), bad)
					}
					continue
				}
				searches++
				var envs []ssa.Value
				if mc, isMC := args[2].(*ssa.MakeClosure); isMC {
					for _, bnd := range mc.Bindings {
						if al, isAl := bnd.(*ssa.Alloc); isAl {
							if v := uniqueStoreValue(al); v != nil {
								envs = append(envs, v)
							}
						}
					}
				}
				recv, bad := judge(args[1], envs)
				// the pruning envelope kept in a variable shared by the searches (captured by the
				// closures): it must be set, for this search, to the envelope of this search's item
				if bad == "" && recv != nil {
					for _, al := range sharedPruningEnvelopes(h) {
						okStore := false
						var loop map[*ssa.BasicBlock]bool
						for _, hb := range h.Blocks {
							if l := naturalLoop(hb); l != nil && l[ps.Block()] && (loop == nil || len(l) < len(loop)) {
								loop = l
							}
						}
						for _, r := range *al.Referrers() {
							st, isSt := r.(*ssa.Store)
							if !isSt || st.Addr != ssa.Value(al) || !st.Block().Dominates(ps.Block()) || (loop != nil && !loop[st.Block()]) {
								continue
							}
							if ec, isCall := st.Val.(*ssa.Call); isCall && len(ec.Call.Args) == 1 {
								if cal := staticCallee(ec); cal != nil && (cal.Name() == "uncheckedEnvelope" || cal.Name() == "Envelope") {
									er := resolveCell(ec.Call.Args[0])
									if er == recv || sameValue(er, recv) {
										okStore = true
									}
								}
							}
						}
						if !okStore {
							rs, _ := accessPath(recv)
							bad = "the pruning test reads the shared variable " + al.Comment + ", which is not set to the envelope of " + trunc(rs) + " before this search (it still holds the envelope of an item of an earlier search)"
						}
					}
				}
				report(ps.(ssa.Instruction), h, bad)
			}
		}
	}
	if searches < 2 {
		c.Errorf("found %d PrioritySearch calls in Distance, expected 2", searches)
	}
	// (d) undefined iff +Inf
	okInf := false
	for _, r := range returnsOf(f) {
		if b, ok := constBool(r.Results[1]); ok && !b {
			for _, gd := range guardsAtBlock(r.Block()) {
				if call, ok := gd.Cond.(*ssa.Call); ok && gd.Truth && calleeName(call) == "math.IsInf" {
					okInf = true
				}
			}
		}
	}
	c.Check(okInf, f.Pos(), fn, "undefined result", "(_, false) is returned exactly under IsInf(min, +1): nothing was found because an operand is empty", "the 'undefined' result is not tied to the running minimum still being +Inf")
	// (c) stores to the running minimum are fastMin(min, candidate)
	mins := 0
	for _, g := range all {
		eachInstr(g, func(in ssa.Instruction) {
			st, ok := in.(*ssa.Store)
			if !ok {
				return
			}
			name := ""
			switch a := st.Addr.(type) {
			case *ssa.FreeVar:
				name = a.Name()
			case *ssa.Alloc:
				name = a.Comment
			}
			if name != "minDist" {
				return
			}
			if cst, ok := st.Val.(*ssa.Call); ok && calleeName(cst) == "math.Inf" {
				return
			}
			mins++
			call, ok := st.Val.(*ssa.Call)
			good := ok && (calleeName(call) == "geom.fastMin" || calleeName(call) == "math.Min")
			if good {
				self := false
				for _, a := range call.Call.Args {
					if u, ok := a.(*ssa.UnOp); ok && u.Op == token.MUL && u.X == st.Addr {
						self = true
					}
				}
				good = self
			}
			c.Check(good, st.Pos(), FuncName(g), "update of the running minimum", "min = fastMin(min, candidate)", "the running minimum is overwritten with something other than min(itself, candidate): the result can increase")
		})
	}
	if mins < 1 {
		c.Errorf("found %d updates of the running minimum, expected at least 1", mins)
	}
}

// sharedPruningEnvelopes: Envelope variables of h that its closures read as the
// argument of Envelope.Distance (the lower bound the early stop compares).
func sharedPruningEnvelopes(h *ssa.Function) []*ssa.Alloc {
	var out []*ssa.Alloc
	for _, g := range allAnon(h) {
		mc, ok := makeClosureOf(g).(*ssa.MakeClosure)
		if !ok || mc == nil {
			continue
		}
		eachCall(g, func(ci ssa.CallInstruction) {
			if calleeName(ci) != "geom.(Envelope).Distance" || len(ci.Common().Args) != 2 {
				return
			}
			ld, ok := ci.Common().Args[1].(*ssa.UnOp)
			if !ok || ld.Op != token.MUL {
				return
			}
			fv, ok := ld.X.(*ssa.FreeVar)
			if !ok {
				return
			}
			for i, b := range mc.Bindings {
				if i < len(g.FreeVars) && g.FreeVars[i] == fv {
					if al, ok := b.(*ssa.Alloc); ok && al.Parent() == h {
						dup := false
						for _, o := range out {
							if o == al {
								dup = true
							}
						}
						if !dup {
							out = append(out, al)
						}
					}
				}
			}
		})
	}
	return out
}

func uniqueStoreValue(al *ssa.Alloc) ssa.Value {
	if st := uniqueStore(al); st != nil {
		return st
	}
	return nil
}

func allAnon(f *ssa.Function) []*ssa.Function {
	var out []*ssa.Function
	for _, a := range f.AnonFuncs {
		out = append(out, a)
		out = append(out, allAnon(a)...)
	}
	return out
}

// withNewHelpers: f and the helpers introduced after the baseline that it
// calls (transitively, bounded depth) — the code that used to be f's body.
func withNewHelpers(f *ssa.Function) []*ssa.Function {
	out := []*ssa.Function{f}
	seen := map[*ssa.Function]bool{f: true}
	for i := 0; i < len(out) && i < 32; i++ {
		eachCall(out[i], func(call ssa.CallInstruction) {
			if h := staticCallee(call); h != nil && !seen[h] && isNewHelper(h) && len(h.Blocks) > 0 {
				seen[h] = true
				out = append(out, h)
			}
		})
	}
	return out
}

func eachCallWithNewHelpers(f *ssa.Function, fn func(call ssa.CallInstruction)) {
	for _, g := range withHelpersAndLiterals(f) {
		eachCall(g, fn)
	}
}

func runC19Conic(c *Ctx) {
	n := 0
	for _, p := range cartoProjections(c) {
		conic := false
		for _, m := range p.methods {
			if m.Name() == "SetStandardParallels" && len(m.Params) == 3 {
				conic = true
			}
		}
		if !conic {
			continue
		}
		n++
		f := p.reverse
		usesAtanQuot, usesAtan2 := false, false
		var pos token.Pos
		eachCallWithNewHelpers(f, func(call ssa.CallInstruction) {
			switch calleeName(call) {
			case "carto.atan", "math.Atan":
				if q, ok := stripLoad(call.Common().Args[0]).(*ssa.BinOp); ok && q.Op == token.QUO {
					usesAtanQuot = true
				}
			case "carto.atan2", "math.Atan2":
				usesAtan2 = true
				pos = call.Pos()
			}
		})
		// the radius of a conic carries the sign of the cone constant (the sibling rule: all
		// three conics write rho = sign(n) * …, and theta = atan(x/(rho0-y)) relies on it)
		signed := false
		eachCallWithNewHelpers(f, func(call ssa.CallInstruction) {
			if calleeName(call) == "carto.sign" {
				signed = true
				// the sign is that of the cone constant: the very value theta is divided by (lambda = lambda0 + theta/n)
				if call.Parent() == f && len(call.Common().Args) == 1 {
					arg := resolveCell(call.Common().Args[0])
					divides := false
					eachInstr(f, func(in ssa.Instruction) {
						if bo, ok := in.(*ssa.BinOp); ok && bo.Op == token.QUO && resolveCell(bo.Y) == arg {
							divides = true
						}
					})
					c.Check(divides, call.Pos(), FuncName(f), "whose sign the radius takes", "the cone constant n, the value theta is divided by", "the radius takes the sign of a value that is not the cone constant (nothing in this Reverse is divided by it): when the standard parallels straddle the equator the first parallel and the cone constant differ in sign, rho gets the wrong sign and the recovered latitude is off by 2|rho|")
				}
			}
		})
		if p.named.Obj().Name() == "AlbersEqualAreaConic" {
			// reviewed: the equal-area conic uses rho only squared (phi = asin((C - (rho*n/R)^2)/(2n))), its sign is immaterial
			signed = true
		}
		c.Check(signed, f.Pos(), FuncName(f), "signed radius in a conic", "rho = sign(n) * distance from the apex", "this conic's Reverse no longer multiplies the radius by sign(n) while its siblings do: for a negative cone constant (southern standard parallels) the latitude recovered from rho is NaN or mirrored")
		c.Check(usesAtanQuot && !usesAtan2, firstValid(pos, f.Pos()), FuncName(f), "theta recovery in a conic", "atan(x/(rho0-y)), consistent with rho carrying sign(n) in all conic siblings", "this conic recovers theta with atan2 while its siblings use atan(x/(rho0-y)) with a signed rho: for a negative cone constant (southern standard parallels) rho0-y is negative and atan2 is off by 180 degrees, i.e. the longitude by 180/|n|")
	}
	if n < 3 {
		c.Errorf("found %d conic projections, expected 3", n)
	}
}

func firstValid(a, b token.Pos) token.Pos {
	if a.IsValid() {
		return a
	}
	return b
}

// keepsCtype: v is x or derived from x only through methods on geometry
// types that preserve the coordinates type (anything except Force2D /
// ForceCoordinatesType / conversions to non-geometry values).
func keepsCtype(v, x ssa.Value, depth int) bool {
	if depth > 8 || v == nil {
		return false
	}
	if v == x || sameValue(v, x) {
		return true
	}
	switch y := v.(type) {
	case *ssa.Call:
		cal := y.Call.StaticCallee()
		if cal == nil || cal.Signature.Recv() == nil || len(y.Call.Args) == 0 {
			return false
		}
		switch cal.Name() {
		case "Force2D", "ForceCoordinatesType":
			return false
		}
		recvT := namedName(cal.Signature.Recv().Type())
		if !geomTypeNames[recvT] {
			return false
		}
		rt := resultType0(cal)
		if rt == nil || !geomTypeNames[namedName(rt)] {
			return false
		}
		nm := cal.Name()
		partAccessor := map[string]bool{"ExteriorRing": true, "InteriorRingN": true, "StartPoint": true, "EndPoint": true, "PointN": true, "LineStringN": true, "PolygonN": true, "GeometryN": true}[nm]
		if !(namedName(rt) == recvT || nm == "AsGeometry" || strings.HasPrefix(nm, "MustAs") || strings.HasPrefix(nm, "As") || partAccessor) {
			return false
		}
		return keepsCtype(y.Call.Args[0], x, depth+1)
	case *ssa.UnOp:
		if y.Op == token.MUL {
			if a, ok := y.X.(*ssa.Alloc); ok {
				if st := uniqueStore(a); st != nil {
					return keepsCtype(st, x, depth+1)
				}
			}
			if !geomTypeNames[namedName(y.Type())] {
				return false
			}
			// a member read straight out of the operand's own lists (m.points[0])
			switch y.X.(type) {
			case *ssa.IndexAddr, *ssa.FieldAddr:
				addr := y.X
				var base ssa.Value
				for hops := 0; hops < 4; hops++ {
					base, _ = baseObject(addr)
					ia, isIdx := base.(*ssa.IndexAddr)
					if !isIdx {
						break
					}
					addr = ia.X
				}
				if base == x {
					return true
				}
				if a, ok := base.(*ssa.Alloc); ok {
					if st := uniqueStore(a); st != nil && (st == x || sameValue(st, x)) {
						return true
					}
				}
			}
			// a geometry kept in a field of a local accumulator (nearest.point): what
			// this function or the accumulator's own methods store there
			if fa, ok := y.X.(*ssa.FieldAddr); ok {
				if a, ok := fa.X.(*ssa.Alloc); ok {
					for _, sv := range accumulatedInto(a, fa.Field) {
						if keepsCtype(sv, x, depth+1) {
							return true
						}
					}
				}
			}
		}
	case *ssa.Extract:
		return keepsCtype(y.Tuple, x, depth+1)
	case *ssa.Phi:
		for _, e := range y.Edges {
			if keepsCtype(e, x, depth+1) {
				return true
			}
		}
	}
	return false
}

// accumulatedInto lists the caller-side values that can end up in field #field of the local
// struct a: values stored there directly, and arguments of calls of the struct's own
// pointer-receiver methods that store one of their parameters (or something that keeps its
// coordinates type) into that field of their receiver.
func accumulatedInto(a *ssa.Alloc, field int) []ssa.Value {
	var out []ssa.Value
	for _, r := range *a.Referrers() {
		switch u := r.(type) {
		case *ssa.FieldAddr:
			if u.Field != field {
				continue
			}
			for _, rr := range *u.Referrers() {
				if st, ok := rr.(*ssa.Store); ok && st.Addr == ssa.Value(u) {
					out = append(out, st.Val)
				}
			}
		case *ssa.Call:
			cal := staticCallee(u)
			if cal == nil || cal.Blocks == nil || len(u.Call.Args) == 0 || u.Call.Args[0] != ssa.Value(a) || len(cal.Params) == 0 {
				continue
			}
			recv := cal.Params[0]
			eachInstr(cal, func(in ssa.Instruction) {
				st, ok := in.(*ssa.Store)
				if !ok {
					return
				}
				fa, ok := st.Addr.(*ssa.FieldAddr)
				if !ok || fa.X != ssa.Value(recv) || fa.Field != field {
					return
				}
				for j, par := range cal.Params {
					if j == 0 || j >= len(u.Call.Args) {
						continue
					}
					if keepsCtype(st.Val, par, 0) {
						out = append(out, u.Call.Args[j])
					}
				}
			})
		}
	}
	return out
}

func runC16XYOnly(c *Ctx) {
	n := 0
	isOp := func(name string) bool {
		return name == "convexHull" || name == "ConvexHull" || name == "Centroid" || name == "PointOnSurface"
	}
	// helpers of the XY-only operations: unexported functions they call (two
	// levels deep) that take a geometry and return one
	helper := map[*ssa.Function]bool{}
	var frontier []*ssa.Function
	for _, f := range c.P.Funcs {
		if pkgOf(f) == "geom" && f.Parent() == nil && isOp(f.Name()) {
			frontier = append(frontier, f)
		}
	}
	for depth := 0; depth < 2; depth++ {
		var next []*ssa.Function
		for _, f := range frontier {
			for _, g := range append([]*ssa.Function{f}, allAnon(f)...) {
				eachCall(g, func(ci ssa.CallInstruction) {
					cal := staticCallee(ci)
					if cal == nil || pkgOf(cal) != "geom" || cal.Parent() != nil || cal.Blocks == nil || token.IsExported(cal.Name()) || isOp(cal.Name()) || helper[cal] {
						return
					}
					if len(cal.Params) == 0 || !geomTypeNames[namedName(cal.Params[0].Type())] {
						return
					}
					if rt := resultType0(cal); rt == nil || !geomTypeNames[namedName(rt)] {
						return
					}
					helper[cal] = true
					next = append(next, cal)
				})
			}
		}
		frontier = next
	}
	for _, f := range c.P.Funcs {
		if pkgOf(f) != "geom" || f.Parent() != nil {
			continue
		}
		name := f.Name()
		if !isOp(name) && !helper[f] {
			continue
		}
		if len(f.Params) == 0 || !geomTypeNames[namedName(f.Params[0].Type())] {
			continue
		}
		rt := resultType0(f)
		if rt == nil || !geomTypeNames[namedName(rt)] {
			continue
		}
		fn := FuncName(f)
		for _, r := range returnsOf(f) {
			n++
			v := r.Results[0]
			bad := keepsCtype(v, f.Params[0], 0)
			// delegation to another XY-only operation is fine
			if call, ok := stripLoad(v).(*ssa.Call); ok {
				if cal := staticCallee(call); cal != nil {
					switch cal.Name() {
					case "convexHull", "ConvexHull", "Centroid", "PointOnSurface":
						bad = false
					}
				}
			}
			vs, _ := accessPath(v)
			c.Check(!bad, r.Pos(), fn, "returned geometry of an XY-only operation", "does not carry the operand's coordinates type ("+trunc(vs)+")", "returns the operand itself (or a coordinates-type-preserving derivative) from an operation defined on XY only: for a Z/M operand the result is not XY (e.g. the empty-input shortcut must return Force2D)")
		}
	}
	if n < 10 {
		c.Errorf("only %d returns of XY-only operations found", n)
	}
}
