package main

import (
	"fmt"
	"go/ast"
	"go/token"
	"go/types"
	"os"
	"sort"
	"strings"

	"golang.org/x/tools/go/packages"
	"golang.org/x/tools/go/ssa"
	"golang.org/x/tools/go/ssa/ssautil"
)

const modPath = "github.com/peterstace/simplefeatures"

// BuildConfig names one build configuration of /repo that is analysed.
type BuildConfig struct {
	GOOS, GOARCH string
}

func (b BuildConfig) String() string { return b.GOOS + "/" + b.GOARCH }

// Program is the resolved, type-checked and SSA-built view of the
// repository's three library packages for one build configuration.
type Program struct {
	Repo   string
	Config BuildConfig
	Fset   *token.FileSet
	Pkgs   map[string]*packages.Package // by short name: geom, rtree, carto
	SSA    *ssa.Program
	SPkgs  map[string]*ssa.Package
	// All source-level functions (including anonymous ones and methods) of
	// the three packages, sorted by position.
	Funcs []*ssa.Function
	// byName indexes Funcs by the canonical name produced by FuncName.
	byName map[string]*ssa.Function
	// declOf maps an ssa function to its syntax (FuncDecl or FuncLit).
	NumPackages int
}

// Load loads ./geom ./rtree ./carto (plus whatever they import) from repo's
// current working tree.
func Load(repo string, cfg BuildConfig) (*Program, error) {
	env := append(os.Environ(),
		"GOFLAGS=-mod=mod", "GOPROXY=off", "GOSUMDB=off", "GOTOOLCHAIN=local",
		"GOWORK=off", "CGO_ENABLED=0",
		"GOOS="+cfg.GOOS, "GOARCH="+cfg.GOARCH)
	pcfg := &packages.Config{
		Mode:       packages.LoadAllSyntax,
		Dir:        repo,
		Env:        env,
		Tests:      false,
		BuildFlags: []string{"-tags=verif"},
	}
	pkgs, err := packages.Load(pcfg, "./geom", "./rtree", "./carto")
	if err != nil {
		return nil, fmt.Errorf("load: %w", err)
	}
	if len(pkgs) != 3 {
		return nil, fmt.Errorf("load: expected 3 root packages, got %d", len(pkgs))
	}
	var errs []string
	packages.Visit(pkgs, nil, func(p *packages.Package) {
		for _, e := range p.Errors {
			errs = append(errs, e.Error())
		}
	})
	if len(errs) > 0 {
		sort.Strings(errs)
		if len(errs) > 10 {
			errs = errs[:10]
		}
		return nil, fmt.Errorf("load: package errors:\n  %s", strings.Join(errs, "\n  "))
	}
	prog, _ := ssautil.AllPackages(pkgs, ssa.InstantiateGenerics)
	prog.Build()

	p := &Program{
		Repo:   repo,
		Config: cfg,
		Fset:   pkgs[0].Fset,
		Pkgs:   map[string]*packages.Package{},
		SSA:    prog,
		SPkgs:  map[string]*ssa.Package{},
		byName: map[string]*ssa.Function{},
	}
	for _, pk := range pkgs {
		if !strings.HasPrefix(pk.PkgPath, modPath+"/") {
			return nil, fmt.Errorf("load: unexpected package %s", pk.PkgPath)
		}
		short := strings.TrimPrefix(pk.PkgPath, modPath+"/")
		p.Pkgs[short] = pk
		sp := prog.Package(pk.Types)
		if sp == nil {
			return nil, fmt.Errorf("load: no SSA for %s", pk.PkgPath)
		}
		p.SPkgs[short] = sp
		if len(pk.Syntax) == 0 {
			return nil, fmt.Errorf("load: no syntax for %s", pk.PkgPath)
		}
	}
	for _, n := range []string{"geom", "rtree", "carto"} {
		if p.Pkgs[n] == nil {
			return nil, fmt.Errorf("load: package %s missing", n)
		}
	}
	p.NumPackages = len(pkgs)

	seen := map[*ssa.Function]bool{}
	var add func(f *ssa.Function)
	add = func(f *ssa.Function) {
		if f == nil || seen[f] {
			return
		}
		seen[f] = true
		if f.Blocks == nil {
			return
		}
		if f.Synthetic != "" && f.Syntax() == nil {
			// wrappers, bound-method thunks: not source functions. Package
			// initialisers are kept (named "init").
			if f.Name() != "init" {
				return
			}
		}
		p.Funcs = append(p.Funcs, f)
		for _, an := range f.AnonFuncs {
			add(an)
		}
	}
	for _, sp := range p.SPkgs {
		for _, m := range sp.Members {
			switch m := m.(type) {
			case *ssa.Function:
				add(m)
			case *ssa.Type:
				for _, t := range []types.Type{m.Type(), types.NewPointer(m.Type())} {
					ms := prog.MethodSets.MethodSet(t)
					for i := 0; i < ms.Len(); i++ {
						fn := prog.MethodValue(ms.At(i))
						if fn != nil && fn.Pkg == sp {
							add(fn)
						}
					}
				}
			}
		}
	}
	sort.Slice(p.Funcs, func(i, j int) bool {
		a, b := p.Funcs[i], p.Funcs[j]
		pa, pb := p.Fset.Position(a.Pos()), p.Fset.Position(b.Pos())
		if pa.Filename != pb.Filename {
			return pa.Filename < pb.Filename
		}
		if pa.Offset != pb.Offset {
			return pa.Offset < pb.Offset
		}
		return a.String() < b.String()
	})
	detectRenames(p)
	for _, f := range p.Funcs {
		p.byName[FuncName(f)] = f
	}
	if len(p.Funcs) < 500 {
		return nil, fmt.Errorf("load: only %d source functions found; expected >500", len(p.Funcs))
	}
	return p, nil
}

// FuncName returns a position-free, stable name:
//
//	geom.(Polygon).Validate, geom.(*wkbParser).parsePoint, geom.setOp,
//	rtree.(*RTree).RangeSearch$1
func FuncName(f *ssa.Function) string {
	if f == nil {
		return "<nil>"
	}
	if n, ok := renamedFuncs[f]; ok {
		return n
	}
	return rawFuncName(f)
}

// rawFuncName: the name as spelled in the analysed tree (FuncName maps a
// renamed function back to its baseline name).
func rawFuncName(f *ssa.Function) string {
	if f.Parent() != nil {
		// anonymous: parent name + $n
		name := f.Name() // e.g. RangeSearch$1
		if i := strings.LastIndex(name, "$"); i >= 0 {
			return FuncName(f.Parent()) + name[i:]
		}
		return FuncName(f.Parent()) + "$" + name
	}
	pkg := ""
	if f.Pkg != nil {
		pkg = strings.TrimPrefix(f.Pkg.Pkg.Path(), modPath+"/")
	} else if f.Object() != nil && f.Object().Pkg() != nil {
		pkg = strings.TrimPrefix(f.Object().Pkg().Path(), modPath+"/")
	}
	if recv := f.Signature.Recv(); recv != nil {
		t := recv.Type()
		ptr := ""
		if pt, ok := t.(*types.Pointer); ok {
			ptr = "*"
			t = pt.Elem()
		}
		tn := t.String()
		if nt, ok := t.(*types.Named); ok {
			tn = nt.Obj().Name()
		}
		return fmt.Sprintf("%s.(%s%s).%s", pkg, ptr, tn, f.Name())
	}
	return pkg + "." + f.Name()
}

// Func resolves a canonical name; nil if absent.
func (p *Program) Func(name string) *ssa.Function { return p.byName[name] }

// InRepo reports whether f is a source function of geom/rtree/carto.
func (p *Program) InRepo(f *ssa.Function) bool {
	if f == nil {
		return false
	}
	for f.Parent() != nil {
		f = f.Parent()
	}
	if f.Pkg == nil {
		return false
	}
	return strings.HasPrefix(f.Pkg.Pkg.Path(), modPath+"/")
}

// Pos renders a position relative to the repo root.
func (p *Program) Pos(pos token.Pos) string {
	if !pos.IsValid() {
		return "-"
	}
	ps := p.Fset.Position(pos)
	fn := strings.TrimPrefix(ps.Filename, p.Repo+"/")
	return fmt.Sprintf("%s:%d:%d", fn, ps.Line, ps.Column)
}

// File returns the base file name of a position.
func (p *Program) File(pos token.Pos) string {
	if !pos.IsValid() {
		return ""
	}
	ps := p.Fset.Position(pos)
	return strings.TrimPrefix(ps.Filename, p.Repo+"/")
}

// FuncDecls iterates the FuncDecls of a package.
func (p *Program) FuncDecls(pkg string, fn func(*ast.FuncDecl)) {
	for _, f := range p.Pkgs[pkg].Syntax {
		for _, d := range f.Decls {
			if fd, ok := d.(*ast.FuncDecl); ok {
				fn(fd)
			}
		}
	}
}

// TypesInfo of a package.
func (p *Program) Info(pkg string) *types.Info { return p.Pkgs[pkg].TypesInfo }

// NamedType looks up a named type in one of the packages.
func (p *Program) NamedType(pkg, name string) *types.Named {
	o := p.Pkgs[pkg].Types.Scope().Lookup(name)
	if o == nil {
		return nil
	}
	n, _ := o.Type().(*types.Named)
	return n
}
