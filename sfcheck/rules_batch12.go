package main

import (
	"fmt"
	"go/token"
	"go/types"
	"math"
	"strings"

	"golang.org/x/tools/go/ssa"
)

var _ = token.NoPos
var _ types.Type

func init() {
	register(&Rule{
		ID:    "C17.endpoint",
		Props: []string{"C17", "C16"},
		Doc:   "the end of a line is its final control point: linearInterpolator.interpolate interpreted on a 3-point sequence whose last segment has zero length, for fractions 1 and above, returns exactly the last control point (with its own Z/M) — not a point recomputed by interpolation on the first segment that reaches the total length (which stops before trailing repeated points and is subject to rounding)",
		Floor: 1,
		Run:   runC17Endpoint,
	})
}

func runC17Endpoint(c *Ctx) {
	f := c.P.Func("geom.(linearInterpolator).interpolate")
	if f == nil {
		c.Errorf("anchor geom.(linearInterpolator).interpolate does not resolve")
		return
	}
	problem, undec := "", ""
	for _, frac := range []float64{1, 2.5} {
		m := &Model{Num: map[string]float64{"$0.total": 1}, Bool: map[string]bool{}, Missing: map[string]bool{}}
		it := &k4interp{p: c.P, m: m, mem: map[string]k4val{}, inline: func(g *ssa.Function) bool {
			switch FuncName(g) {
			case "geom.(Sequence).Length", "geom.(CoordinatesType).Dimension":
				return true
			}
			return false
		}}
		it.mem["$0.cumulative"] = k4val{kind: 8, s: "CUM", ln: 2, cp: 2}
		it.mem["CUM[0]"] = k4val{kind: 2, f: 1}
		it.mem["CUM[1]"] = k4val{kind: 2, f: 1}
		it.mem["$0.seq.floats"] = k4val{kind: 8, s: "F", ln: 6, cp: 6}
		it.mem["$0.seq.ctype"] = k4val{kind: 2, f: 0}
		it.answer = func(key string, isBool bool) (k4val, bool) {
			switch {
			case !isBool && strings.HasPrefix(key, "sort.SearchFloat64s("):
				return k4val{kind: 2, f: 0}, true // first index whose cumulative length reaches the total
			case !isBool && strings.Contains(key, "distanceTo("):
				return k4val{kind: 2, f: 1}, true
			}
			return k4val{}, false
		}
		res, err := it.call(f, []k4val{{kind: 3, s: "$0"}, {kind: 2, f: frac}}, nil)
		if err != nil || len(res) != 1 {
			undec = fmt.Sprintf("%v %v %s", err, res, missingList(m))
			break
		}
		got := res[0].String()
		want := "geom.(Coordinates).AsPoint(geom.(Sequence).Get($0.seq,2))"
		if got != want {
			problem = fmt.Sprintf("interpolate(%v) on a 3-point line whose last two points coincide returns %s, expected the final control point %s", frac, trunc(got), want)
			break
		}
	}
	reportK4(c, f, "fraction >= 1", undec, problem, "returns the final control point itself")
}

func init() {
	register(&Rule{
		ID:    "C13.bounded",
		Props: []string{"C13", "C08"},
		Doc:   "no loop can only be left on a floating-point comparison: in geom, rtree and carto every loop has an exit whose condition is an integer/Boolean test (a counter, a length, an emptiness or a token test) — a loop whose every exit compares rounded floating-point quantities (e.g. 'until the projection decreases') need not terminate when the values round to equal, as for the calipers on a very thin hull",
		Floor: 100,
		Run:   runC13Bounded,
	})
}

func runC13Bounded(c *Ctx) {
	n := 0
	for _, f := range c.P.Funcs {
		if !c.P.InRepo(f) {
			continue
		}
		fn := FuncName(f)
		for _, h := range f.Blocks {
			loop := naturalLoop(h)
			if loop == nil {
				continue
			}
			n++
			floatOnly, exits := true, 0
			for b := range loop {
				for i, s := range b.Succs {
					if loop[s] {
						continue
					}
					exits++
					ifi, ok := b.Instrs[len(b.Instrs)-1].(*ssa.If)
					if !ok {
						floatOnly = false // range/Next, return, panic …
						continue
					}
					_ = i
					isFloatCmp := false
					if bo, ok := ifi.Cond.(*ssa.BinOp); ok {
						if isFloat(bo.X.Type()) && isFloat(bo.Y.Type()) {
							isFloatCmp = true
						}
					}
					if !isFloatCmp {
						floatOnly = false
					}
				}
			}
			if exits == 0 {
				floatOnly = false // no exit edge at all: an intentional endless loop is not this rule's business
			}
			if floatOnly {
				c.Bad(firstPos(h), fn, "loop exit", "every exit of this loop is a floating-point comparison: if the compared values round to equal the loop never ends (bound it by a counter)")
			} else {
				c.Triv(firstPos(h), fn, "loop exit", "has an exit that does not depend on a floating-point comparison")
			}
		}
	}
	if n < 100 {
		c.Errorf("only %d loops found", n)
	}
}

func init() {
	register(&Rule{
		ID:    "C08.panic",
		Props: []string{"C08", "C03"},
		Doc:   "explicit panics reachable from the decoders are unreachable by construction: every `panic(…)` in a function reachable from the decoder entry points (Unmarshal*, Scan, UnmarshalJSON) is (a) the default of a switch over a closed enum / geometry-type chain that is exhaustive (C20.switch), or (b) listed in the reviewed table with the invariant that excludes it — a panic that merely restates an assumption about floating-point results ('already established that …') is a crash on valid-looking input",
		Floor: 15,
		Run:   runC08Panic,
	})
}

// reviewedPanics: function -> reason the panic cannot be reached from a decoder.
var reviewedPanics = map[string]string{
	"geom.detectCoordinatesLengths":          "default of the type switch over the node types that decodeGeoJSON produces (Point … GeometryCollection nodes): no other type can be stored in the tree it is given",
	"geom.geojsonNodeToGeometry":             "default of the type switch over the node types that decodeGeoJSON produces; detectCoordinatesLengths has walked the same tree before",
	"geom.(graph).addEdge":                   "called by Polygon.Validate with the indices of two different rings (i != j) and of a ring and a fresh vertex number, all non-negative loop counters",
	"geom.(Geometry).check":                  "the As*/MustAs* conversions are applied under the matching type test (C20.tag, C20.dispatch, C09.dispatch)",
	"geom.(LineString).IsSimple":             "the index j comes from an R-tree that was loaded only with indices for which getLine succeeded on the same sequence",
	"geom.(Sequence).assertNoUnusedCapacity": "the sequence was built by appending exactly the number of floats its capacity was computed from, immediately before the assertion",
	"geom.(Polygon).Validate":                "every ring has just passed validateRing, which rejects empty (and unclosed) rings, so each ring has an envelope",
	"rtree.bulkInsert":                       "bulkInsert recurses only on the two halves of a split, and splitBulkItems2Ways returns two non-empty halves for n >= 2 (C11.bulk)",
	"geom.NewSequence":                       "the slice length is count x dimension by construction in every decoder (C04.fields, C07.delta)",
}

func runC08Panic(c *Ctx) {
	entries := decoderEntries(c.P)
	reach := c.P.reachableFrom(entries...)
	n := 0
	for _, f := range c.P.Funcs {
		if !reach[f] || !c.P.InRepo(f) {
			continue
		}
		fn := FuncName(f)
		root := FuncName(rootFunc(f))
		k := 0
		eachInstr(f, func(in ssa.Instruction) {
			p, ok := in.(*ssa.Panic)
			if !ok || !p.Pos().IsValid() {
				return
			}
			n++
			k++
			msg := "panic"
			if mi, ok := p.X.(*ssa.MakeInterface); ok {
				if s, ok := constString(mi.X); ok {
					msg = "panic(" + trunc(s) + ")"
				} else if call, ok := mi.X.(*ssa.Call); ok {
					msg = "panic(" + calleeName(call) + "(…))"
					for _, a := range call.Call.Args {
						if s, ok := constString(a); ok {
							msg = "panic(" + trunc(s) + ")"
						}
					}
				}
			}
			construct := fmt.Sprintf("%s #%d", msg, k)
			// (a) default of an exhaustive switch: the panic block is reached only through
			// the failing edges of a chain of equality tests on one enum value / Is* predicates
			if exhaustiveDefault(p.Block()) {
				c.OK(p.Pos(), fn, construct, "default arm of a chain of type/enum tests (exhaustiveness is C20.switch's obligation)")
				return
			}
			if why, ok := reviewedPanics[root]; ok {
				c.Except(p.Pos(), fn, construct, why)
				return
			}
			if rf := rootFunc(f); isNewHelper(rf) {
				// a helper split off reviewed code: every call site lies in a function whose panics are reviewed
				if sites := c.P.callSitesOf(rf); len(sites) > 0 {
					why, all := "", true
					for _, cs := range sites {
						w, ok := reviewedPanics[FuncName(rootFunc(cs.Parent()))]
						if !ok {
							all = false
							break
						}
						why = w
					}
					if all {
						c.Except(p.Pos(), fn, construct, "helper split off reviewed code: "+why)
						return
					}
				}
				if _, _, _, ok := tagAssertSummary(rf); ok {
					c.Except(p.Pos(), fn, construct, "a tag assertion introduced since the baseline (panics unless the geometry's tag equals the requested type): "+reviewedPanics["geom.(Geometry).check"])
					return
				}
			}
			c.Bad(p.Pos(), fn, construct, "an explicit panic is reachable from the decoders and is neither the default of an exhaustive type/enum dispatch nor a reviewed invariant: if its assumption fails on some input (e.g. because a floating-point predicate is not symmetric), decoding crashes instead of returning an error")
		})
	}
	if n < 15 {
		c.Errorf("only %d explicit panics reachable from the decoders found, expected >= 15", n)
	}
}

// exhaustiveDefault: block b is entered only via the false edges of equality
// comparisons with constants / via false results of Is*() predicates (the
// default arm of a switch), directly or through empty blocks.
func exhaustiveDefault(b *ssa.BasicBlock) bool {
	if len(b.Preds) == 0 {
		return false
	}
	for _, p := range b.Preds {
		ifi, ok := p.Instrs[len(p.Instrs)-1].(*ssa.If)
		if !ok {
			return false
		}
		if p.Succs[1] != b {
			return false // entered on the true edge of a test: not a default arm
		}
		switch x := ifi.Cond.(type) {
		case *ssa.BinOp:
			if x.Op != token.EQL {
				return false
			}
			if _, isC := x.Y.(*ssa.Const); !isC {
				return false
			}
		case *ssa.Call:
			cal := staticCallee(x)
			if cal == nil || !strings.HasPrefix(cal.Name(), "Is") {
				return false
			}
		default:
			return false
		}
	}
	return true
}

func init() {
	register(&Rule{
		ID:    "C08.narrow",
		Props: []string{"C08"},
		Doc:   "a 64-bit count read from the input is range-checked before (or right after) it is converted to a signed int: in decoder-reachable code, every conversion of an input-derived unsigned 64-bit value to a signed integer is dominated by a comparison bounding the unsigned value by the remaining input, or the converted value is tested for `< 0` and bounded by the remaining input before anything is computed from it — otherwise 2^63 and above wrap to negative or small numbers and slip past later checks",
		Floor: 3,
		Run:   runC08Narrow,
	})
}

func runC08Narrow(c *Ctx) {
	entries := decoderEntries(c.P)
	reach := c.P.reachableFrom(entries...)
	t := newTaint(c.P, countSource)
	n := 0
	for _, f := range c.P.Funcs {
		if !reach[f] || pkgOf(f) != "geom" {
			continue
		}
		fn := FuncName(f)
		eachInstr(f, func(in ssa.Instruction) {
			cv, ok := in.(*ssa.Convert)
			if !ok {
				return
			}
			src, tainted := t.Of(cv.X)
			if !tainted {
				return
			}
			from, okF := cv.X.Type().Underlying().(*types.Basic)
			to, okT := cv.Type().Underlying().(*types.Basic)
			if !okF || !okT || from.Kind() != types.Uint64 || to.Info()&types.IsUnsigned != 0 || to.Info()&types.IsInteger == 0 {
				return
			}
			n++
			xs, _ := accessPath(cv.X)
			construct := "signed conversion of " + trunc(xs)
			// x >> k (k >= 1) and x & mask (mask < 2^63) are below 2^63: the conversion cannot wrap
			// (the two halves of a zig-zag decode)
			if bo, ok := cv.X.(*ssa.BinOp); ok {
				if k, isC := constInt(bo.Y); isC && ((bo.Op == token.SHR && k >= 1) || (bo.Op == token.AND && k >= 0)) {
					c.OK(cv.Pos(), fn, construct, "the operand is shifted right / masked, hence below 2^63")
					return
				}
			}
			if fact, ok := boundedByInput(t, cv, cv.X, src); ok {
				c.OK(cv.Pos(), fn, construct, "the unsigned value is bounded first: "+fact)
				return
			}
			// every use of the converted value is a comparison, or is dominated by
			// `converted < 0` being false and a bound against the input
			bad := ""
			for _, r := range *cv.Referrers() {
				ri, ok := r.(ssa.Instruction)
				if !ok {
					continue
				}
				if bo, ok := r.(*ssa.BinOp); ok {
					switch bo.Op {
					case token.LSS, token.LEQ, token.GTR, token.GEQ, token.EQL, token.NEQ:
						continue
					}
				}
				// uses that compute nothing from the value: handing it to a function
				// (which checks its own parameter: C08.alloc obligations there), returning
				// it next to the error of that function, merging it
				if call, isCall := r.(*ssa.Call); isCall {
					// handed to a repository function: that function must test its parameter for < 0 before computing with it
					if g := staticCallee(call); g != nil && len(g.Blocks) > 0 && c.P.InRepo(g) {
						for ai, a := range call.Call.Args {
							if a != ssa.Value(cv) || ai >= len(g.Params) {
								continue
							}
							if where := paramUsedBeforeSignTest(g.Params[ai]); where != nil {
								bad = "passed to " + FuncName(g) + ", which computes with it at " + c.P.Pos(where.Pos()) + " without having tested it for < 0"
							}
						}
					}
					continue
				}
				switch r.(type) {
				case *ssa.Phi, *ssa.Return:
					continue
				}
				nonNeg := false
				for _, g := range guardsAt(ri) {
					if bo, ok := g.Cond.(*ssa.BinOp); ok && bo.Op == token.LSS && !g.Truth && (bo.X == ssa.Value(cv) || sameValue(bo.X, cv)) {
						if k, isC := constInt(bo.Y); isC && k == 0 {
							nonNeg = true
						}
					}
				}
				_, bounded := boundedByInput(t, ri, cv, src)
				if !(nonNeg && bounded) {
					bad = "used at " + c.P.Pos(ri.Pos()) + " before being tested for < 0 and bounded by the remaining input"
				}
			}
			c.Check(bad == "", cv.Pos(), fn, construct, "the converted value is tested for < 0 and bounded before use", "an input-derived uint64 is converted to a signed integer and "+bad+": values of 2^63 and above wrap around")
		})
	}
	if n < 3 {
		c.Errorf("only %d signed conversions of input counts found, expected >= 3", n)
	}
}

func init() {
	register(&Rule{
		ID:    "C08.nested",
		Props: []string{"C08"},
		Doc:   "nesting cannot multiply reservations: a decoder routine that can re-enter itself through nested geometries (it lies on a cycle of the call graph) does not reserve memory from a count field, even one that is bounded by the remaining input — each level's header consumes a few bytes while its reservation is proportional to everything that remains, so k nested levels reserve k times the input (quadratic); children are appended as they are parsed instead",
		Floor: 2,
		Run:   runC08Nested,
	})
}

func runC08Nested(c *Ctx) {
	entries := decoderEntries(c.P)
	reach := c.P.reachableFrom(entries...)
	t := newTaint(c.P, countSource)
	n := 0
	for _, f := range c.P.Funcs {
		if !reach[f] || pkgOf(f) != "geom" || f.Parent() != nil {
			continue
		}
		// does f reach itself?
		var callees []*ssa.Function
		eachCall(f, func(ci ssa.CallInstruction) {
			if cal := staticCallee(ci); cal != nil && c.P.InRepo(cal) {
				callees = append(callees, cal)
			}
		})
		if len(callees) == 0 || !c.P.reachableFrom(callees...)[f] {
			continue
		}
		fn := FuncName(f)
		n++
		bad := ""
		eachInstr(f, func(in ssa.Instruction) {
			ms, ok := in.(*ssa.MakeSlice)
			if !ok {
				return
			}
			for _, sz := range []ssa.Value{ms.Len, ms.Cap} {
				if _, tainted := t.Of(sz); tainted {
					ss, _ := accessPath(sz)
					bad = "reserves " + typeShort(ms.Type()) + " of size " + trunc(ss) + " (an input count) at " + c.P.Pos(ms.Pos())
				}
			}
		})
		c.Check(bad == "", f.Pos(), fn, "re-entrant decoder routine", "reserves nothing from a count field", "a routine that nested input can re-enter "+bad+": nested headers of a few bytes each reserve memory proportional to the whole remaining input, quadratic in total")
	}
	if n < 2 {
		c.Errorf("only %d re-entrant decoder routines found, expected >= 2", n)
	}
}

func init() {
	register(&Rule{
		ID:    "C14.shoelace",
		Props: []string{"C14", "C17", "C01"},
		Doc:   "areas are accumulated from differences: in signedAreaOfLinearRing (area, orientation, centroid weights) and unboundedFace, every product added to the running area has both factors built from coordinate differences (to the previous vertex or to a reference vertex) — a factor that is a sum of absolute coordinates makes the terms as large as the coordinates squared, and the area of a small ring far from the origin is lost to rounding (Area 0, wrong winding sign, NaN centroid)",
		Floor: 1,
		Run:   runC14Shoelace,
	})
}

func runC14Shoelace(c *Ctx) {
	f := c.P.Func("geom.signedAreaOfLinearRing")
	if f == nil {
		c.Errorf("anchor geom.signedAreaOfLinearRing does not resolve")
		return
	}
	n := 0
	eachInstr(f, func(in ssa.Instruction) {
		mul, ok := in.(*ssa.BinOp)
		if !ok || mul.Op != token.MUL || !isFloat(mul.Type()) {
			return
		}
		// the product is added to a loop-carried accumulator
		acc := false
		for _, r := range *mul.Referrers() {
			if add, ok := r.(*ssa.BinOp); ok && add.Op == token.ADD {
				if _, isPhi := add.X.(*ssa.Phi); isPhi {
					acc = true
				}
				if _, isPhi := add.Y.(*ssa.Phi); isPhi {
					acc = true
				}
			}
		}
		if !acc {
			return
		}
		n++
		bad := ""
		for _, fac := range []ssa.Value{mul.X, mul.Y} {
			hasSub := operandTreeAny(fac, func(v ssa.Value) bool {
				bo, ok := v.(*ssa.BinOp)
				return ok && bo.Op == token.SUB
			})
			absSum := false
			if add, ok := fac.(*ssa.BinOp); ok && add.Op == token.ADD {
				isCoord := func(v ssa.Value) bool {
					switch v.(type) {
					case *ssa.Field, *ssa.UnOp, *ssa.Phi, *ssa.Extract:
						return true
					}
					return false
				}
				if isCoord(add.X) && isCoord(add.Y) {
					absSum = true
				}
			}
			if !hasSub || absSum {
				fs, _ := accessPath(fac)
				bad = "the factor " + trunc(fs) + " is built from absolute coordinates"
			}
		}
		c.Check(bad == "", mul.Pos(), FuncName(f), "shoelace term", "both factors are coordinate differences", bad+": for a ring that is small compared to the magnitude of its coordinates the area is lost to rounding")
	})
	if n < 1 {
		c.Errorf("no accumulated product found in signedAreaOfLinearRing")
	}
}

func init() {
	register(&Rule{
		ID:    "C09.accuracy",
		Props: []string{"C09"},
		Doc:   "point-to-segment distance is accurate to a few ulps on the integer domain: distBetweenXYAndLine interpreted on ill-conditioned integer configurations (a point very close to a long segment, |c| <= 2^10) returns |ab x ap| / |ab| (cross product exact in float64, one square root, one division) within 4 ulps — constructing the rounded foot point and measuring the distance to it loses about six significant digits there",
		Floor: 1,
		Run:   runC09Accuracy,
	})
}

func runC09Accuracy(c *Ctx) {
	f := c.P.Func("geom.distBetweenXYAndLine")
	if f == nil {
		c.Errorf("anchor geom.distBetweenXYAndLine does not resolve")
		return
	}
	inl := inlineAllGeom("geom.(XY).Sub", "geom.(XY).Add", "geom.(XY).Dot", "geom.(XY).Cross", "geom.(XY).Length", "geom.(XY).Scale", "geom.(XY).lengthSq", "geom.distBetweenXYs", "geom.distBetweenXYAndLine")
	problem, undec := "", ""
	cases := [][6]float64{
		{-546, -743, 991, 875, -565, -763},
		{3, 2, -1000, -999, 1000, 1001},
		{511, 512, -1024, -1023, 1023, 1024},
		{0, 1, -1024, 0, 1024, 1},
	}
	for _, k := range cases {
		m := &Model{Num: map[string]float64{"$0.X": k[0], "$0.Y": k[1], "$1.a.X": k[2], "$1.a.Y": k[3], "$1.b.X": k[4], "$1.b.Y": k[5]}, Bool: map[string]bool{}, Missing: map[string]bool{}}
		res, err := k4run(c.P, f, m, inl)
		if err != nil || len(res) != 1 || res[0].kind != 2 {
			undec = fmt.Sprintf("%v %v %s", err, res, missingList(m))
			break
		}
		abx, aby := k[4]-k[2], k[5]-k[3]
		apx, apy := k[0]-k[2], k[1]-k[3]
		cross := abx*apy - aby*apx // exact: |values| < 2^24
		if cross < 0 {
			cross = -cross
		}
		want := cross / math.Sqrt(abx*abx+aby*aby)
		ulp := math.Nextafter(want, math.Inf(1)) - want
		if d := math.Abs(res[0].f - want); d > 4*ulp {
			problem = fmt.Sprintf("distance from (%v %v) to the segment (%v %v)-(%v %v) is computed as %.17g, the correctly rounded value is %.17g: off by %.0f ulps", k[0], k[1], k[2], k[3], k[4], k[5], res[0].f, want, d/ulp)
			break
		}
	}
	reportK4(c, f, "accuracy on ill-conditioned integer inputs", undec, problem, fmt.Sprintf("within 4 ulps of |ab x ap|/|ab| on %d configurations", len(cases)))
}

func init() {
	register(&Rule{
		ID:    "C09.hypot",
		Props: []string{"C09", "C12", "C14"},
		Doc:   "Euclidean norms are not computed as the square root of a sum of squares: in geom and rtree no math.Sqrt is applied to x*x + y*y, to a squared-length helper (lengthSq, distanceSquaredTo) or to w.Dot(w) — the squares underflow to 0 / overflow to +Inf for magnitudes whose norm is perfectly representable (Distance 0 between distinct points, Length 0 or +Inf, EMPTY centroids); math.Hypot is used instead",
		Floor: 2,
		Run:   runC09Hypot,
	})
}

func runC09Hypot(c *Ctx) {
	n := 0
	for _, f := range c.P.Funcs {
		if pk := pkgOf(f); pk != "geom" && pk != "rtree" {
			continue
		}
		fn := FuncName(f)
		eachCall(f, func(ci ssa.CallInstruction) {
			name := calleeName(ci)
			if name == "math.Hypot" {
				n++
				c.OK(ci.Pos(), fn, "Euclidean norm", "math.Hypot")
				return
			}
			if name != "math.Sqrt" {
				return
			}
			arg := stripLoad(ci.Common().Args[0])
			sumSq := false
			if add, ok := arg.(*ssa.BinOp); ok && add.Op == token.ADD {
				sq := func(v ssa.Value) bool {
					m, ok := v.(*ssa.BinOp)
					return ok && m.Op == token.MUL && (m.X == m.Y || sameValue(m.X, m.Y))
				}
				sumSq = sq(add.X) && sq(add.Y)
			}
			if call, ok := arg.(*ssa.Call); ok {
				cn := calleeName(call)
				if strings.HasSuffix(cn, ").lengthSq") || strings.HasSuffix(cn, ").distanceSquaredTo") {
					sumSq = true
				}
				if strings.HasSuffix(cn, ").Dot") && len(call.Call.Args) == 2 && sameValue(call.Call.Args[0], call.Call.Args[1]) {
					sumSq = true
				}
			}
			if !sumSq {
				return
			}
			n++
			c.Bad(ci.Pos(), fn, "Euclidean norm", "the norm is taken as the square root of a sum of squares: the squares underflow to 0 / overflow to +Inf although the norm itself is representable (use math.Hypot)")
		})
	}
	if n < 2 {
		c.Errorf("only %d Euclidean norm computations found in geom/rtree, expected >= 2", n)
	}
}

// paramUsedBeforeSignTest: an instruction that computes with (allocates by, indexes by, does arithmetic on) the
// signed parameter p where p >= 0 has not been established; nil when every such use is guarded
func paramUsedBeforeSignTest(p *ssa.Parameter) ssa.Instruction {
	if p.Referrers() == nil {
		return nil
	}
	for _, r := range *p.Referrers() {
		switch x := r.(type) {
		case *ssa.BinOp:
			switch x.Op {
			case token.LSS, token.LEQ, token.GTR, token.GEQ, token.EQL, token.NEQ:
				continue
			}
		case *ssa.Phi, *ssa.Return, *ssa.DebugRef, *ssa.Call, *ssa.MakeInterface, *ssa.Store:
			continue
		}
		in, ok := r.(ssa.Instruction)
		if !ok {
			continue
		}
		lo, _, hasLo, _ := intBounds(in, p)
		if hasLo && lo >= 0 {
			continue
		}
		return in
	}
	return nil
}
