package main

import (
	"go/token"
	"strings"

	"golang.org/x/tools/go/ssa"
)

func init() {
	register(&Rule{
		ID:    "C03.errors",
		Props: []string{"C03", "C08", "C05", "C04", "C06", "C07", "C01", "C02", "C17"},
		Doc:   "error discipline: no error returned by a repository function (Validate, validateRing, the parser/lexer routines, constructors, set operations…) or by encoding/json is discarded — the error component of every such call is extracted and used (tested, returned or wrapped). The one reviewed idiom: RangeSearch/PrioritySearch whose callback can only return nil or rtree.Stop (then the search cannot fail)",
		Floor: 150,
		Run:   runC03Errors,
	})
}

// callbackOnlyNilOrStop: every return of the closure is the constant nil or
// the rtree.Stop sentinel.
func callbackOnlyNilOrStop(fn *ssa.Function) bool {
	if fn == nil || fn.Blocks == nil {
		return false
	}
	for _, r := range returnsOf(fn) {
		if len(r.Results) != 1 {
			return false
		}
		v := r.Results[0]
		if isNilConst(v) {
			continue
		}
		if ld, ok := v.(*ssa.UnOp); ok {
			if g, ok := ld.X.(*ssa.Global); ok && g.Name() == "Stop" {
				continue
			}
		}
		// result of a helper closure that itself only returns nil/Stop
		if call, ok := v.(*ssa.Call); ok {
			if cal := staticCallee(call); cal != nil && cal != fn && callbackOnlyNilOrStop(cal) {
				continue
			}
		}
		return false
	}
	return true
}

func runC03Errors(c *Ctx) {
	n := 0
	for _, f := range c.P.Funcs {
		fn := FuncName(f)
		eachInstr(f, func(in ssa.Instruction) {
			call, ok := in.(*ssa.Call)
			if !ok {
				return
			}
			cal := staticCallee(call)
			if cal == nil {
				return
			}
			res := cal.Signature.Results()
			if res.Len() == 0 || !isErrorType(res.At(res.Len()-1).Type()) {
				return
			}
			name := extName(cal)
			if !(c.P.InRepo(cal) || strings.HasPrefix(name, "encoding/json.")) {
				return
			}
			n++
			construct := "error result of " + name
			used := false
			if res.Len() == 1 {
				used = len(*call.Referrers()) > 0
			} else {
				for _, r := range *call.Referrers() {
					if ex, ok := r.(*ssa.Extract); ok && ex.Index == res.Len()-1 && len(*ex.Referrers()) > 0 {
						used = true
					}
				}
			}
			if used {
				fres := f.Signature.Results()
				canPropagate := fres.Len() > 0 && isErrorType(fres.At(fres.Len()-1).Type())
				why := testedButIgnored(call, res.Len())
				if why == "" {
					why = droppedOnNonNilPath(call, res.Len())
				}
				if why == "" {
					why = overwrittenInLoop(call, res.Len())
				}
				if why != "" && canPropagate {
					c.Bad(call.Pos(), fn, construct, "the error does not reach the caller: "+why+" — a failed validation/parse step is silently treated as success")
					return
				}
				c.OK(call.Pos(), fn, construct, "error is extracted and used")
				return
			}
			if strings.HasSuffix(name, ".RangeSearch") || strings.HasSuffix(name, ".PrioritySearch") {
				args := call.Call.Args
				cb := closureOf(args[len(args)-1])
				if callbackOnlyNilOrStop(cb) {
					c.Except(call.Pos(), fn, construct, "the callback can only return nil or rtree.Stop (checked on the closure), so the search cannot return an error")
					return
				}
			}
			c.Bad(call.Pos(), fn, construct, "the error is discarded: a failed validation/parse step is silently treated as success")
		})
	}
	if n < 150 {
		c.Errorf("only %d error-returning call sites found", n)
	}
}

// overwrittenInLoop: the call sits in a loop and its error is not looked at
// inside that loop: it is only carried to the next iteration (a phi at the
// loop header, or a variable declared outside the loop that the loop never
// reads), where the next call overwrites it — only the last iteration's error
// survives.
func overwrittenInLoop(call *ssa.Call, nres int) string {
	var errv ssa.Value = call
	if nres > 1 {
		errv = nil
		for _, r := range *call.Referrers() {
			if ex, ok := r.(*ssa.Extract); ok && ex.Index == nres-1 {
				errv = ex
			}
		}
	}
	if errv == nil {
		return ""
	}
	f := call.Parent()
	var loop map[*ssa.BasicBlock]bool
	for _, h := range f.Blocks {
		l := naturalLoop(h)
		if l != nil && l[call.Block()] && (loop == nil || len(l) < len(loop)) {
			loop = l
		}
	}
	if loop == nil {
		return ""
	}
	usedInside, carried := false, false
	seen := map[ssa.Value]bool{}
	var walk func(v ssa.Value, d int)
	walk = func(v ssa.Value, d int) {
		if d > 4 || seen[v] || v.Referrers() == nil {
			return
		}
		seen[v] = true
		for _, r := range *v.Referrers() {
			switch x := r.(type) {
			case *ssa.DebugRef:
			case *ssa.Phi:
				if loop[x.Block()] {
					carried = true
					walk(x, d+1)
				}
			case *ssa.Store:
				al, ok := x.Addr.(*ssa.Alloc)
				if !ok || x.Val != v || loop[al.Block()] {
					usedInside = true
					continue
				}
				carried = true
				for _, ar := range *al.Referrers() {
					if ld, ok := ar.(*ssa.UnOp); ok && loop[ld.Block()] {
						usedInside = true
					}
					if _, isMC := ar.(*ssa.MakeClosure); isMC {
						usedInside = true
					}
				}
			default:
				if loop[r.Block()] {
					usedInside = true
				}
			}
		}
	}
	walk(errv, 0)
	if carried && !usedInside {
		return "inside the loop the error is neither tested nor returned, it is only carried into the next iteration, whose call overwrites it (only the last iteration's error can be seen after the loop)"
	}
	return ""
}

// testedButIgnored: every use of the call's error result is a comparison with
// nil, and on some such comparison the non-nil branch rejoins the normal flow
// without the error having been returned, passed on, stored or panicked with.
func testedButIgnored(call *ssa.Call, nres int) string {
	var errVals []ssa.Value
	if nres == 1 {
		errVals = append(errVals, call)
	} else {
		for _, r := range *call.Referrers() {
			if ex, ok := r.(*ssa.Extract); ok && ex.Index == nres-1 {
				errVals = append(errVals, ex)
			}
		}
	}
	var cmps []*ssa.BinOp
	for _, e := range errVals {
		for _, r := range *e.Referrers() {
			switch x := r.(type) {
			case *ssa.BinOp:
				if (x.Op == token.EQL || x.Op == token.NEQ) && (isNilConst(x.X) || isNilConst(x.Y)) {
					cmps = append(cmps, x)
					continue
				}
				return ""
			case *ssa.DebugRef:
				continue
			default:
				return "" // returned, passed on, stored, merged …: propagating use
			}
		}
	}
	for _, cmp := range cmps {
		live := 0
		for _, r := range *cmp.Referrers() {
			if _, dbg := r.(*ssa.DebugRef); !dbg {
				live++
			}
		}
		if live == 0 {
			return "the comparison decides nothing (both branches are the same code)"
		}
		for _, r := range *cmp.Referrers() {
			ifi, ok := r.(*ssa.If)
			if !ok {
				return "" // the comparison is used as a value
			}
			b := ifi.Block()
			t := b.Succs[0]
			f := b.Succs[1]
			if cmp.Op == token.EQL {
				t, f = f, t
			}
			// t: the error is non-nil
			if len(t.Preds) != 1 {
				// the non-nil edge goes straight to a join block: nothing is done about the error
				return "the non-nil branch is empty"
			}
			// region dominated by t
			leaves := false
			for _, blk := range b.Parent().Blocks {
				if !(blk == t || t.Dominates(blk)) {
					continue
				}
				for _, s := range blk.Succs {
					if !(s == t || t.Dominates(s)) {
						leaves = true
					}
				}
			}
			if leaves {
				return "the non-nil branch falls back into the normal flow"
			}
		}
	}
	return ""
}

// droppedOnNonNilPath: some `err != nil` test of the call's error sends the non-nil case down a path on which the
// error is never used again (returned, passed on, stored, merged) — e.g. `if err == nil { return err }`.
func droppedOnNonNilPath(call *ssa.Call, nres int) string {
	var errVals []ssa.Value
	if nres == 1 {
		errVals = append(errVals, call)
	} else {
		for _, r := range *call.Referrers() {
			if ex, ok := r.(*ssa.Extract); ok && ex.Index == nres-1 {
				errVals = append(errVals, ex)
			}
		}
	}
	for _, e := range errVals {
		var uses []ssa.Instruction
		var cmps []*ssa.BinOp
		for _, r := range *e.Referrers() {
			switch x := r.(type) {
			case *ssa.DebugRef:
			case *ssa.BinOp:
				if (x.Op == token.EQL || x.Op == token.NEQ) && (isNilConst(x.X) || isNilConst(x.Y)) {
					cmps = append(cmps, x)
				} else {
					uses = append(uses, x)
				}
			default:
				uses = append(uses, r)
			}
		}
		if len(uses) == 0 {
			continue // testedButIgnored's case
		}
		for _, cmp := range cmps {
			for _, r := range *cmp.Referrers() {
				ifi, ok := r.(*ssa.If)
				if !ok {
					continue
				}
				b := ifi.Block()
				t := b.Succs[0]
				if cmp.Op == token.EQL {
					t = b.Succs[1]
				}
				// blocks reachable from the non-nil successor
				reach := map[*ssa.BasicBlock]bool{}
				var walk func(x *ssa.BasicBlock)
				walk = func(x *ssa.BasicBlock) {
					if reach[x] {
						return
					}
					reach[x] = true
					for _, s := range x.Succs {
						walk(s)
					}
				}
				walk(t)
				used := false
				for _, u := range uses {
					ub := u.Block()
					if phi, ok := u.(*ssa.Phi); ok {
						// the phi uses e on the edges that carry it
						for k, ed := range phi.Edges {
							if ed == e && (reach[ub.Preds[k]] || ub.Preds[k] == b) {
								used = true
							}
						}
						continue
					}
					if reach[ub] {
						// a use in the If's own block only counts when that block is re-entered (loop)
						used = true
					}
				}
				if !used {
					return "on the branch where it is non-nil the error is never used again (it is only returned or passed on where it is nil)"
				}
			}
		}
	}
	return ""
}
