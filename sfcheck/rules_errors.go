package main

import (
	"strings"

	"golang.org/x/tools/go/ssa"
)

func init() {
	register(&Rule{
		ID:    "C03.errors",
		Props: []string{"C03", "C08", "C05"},
		Doc:   "error discipline: no error returned by a repository function (Validate, validateRing, the parser/lexer routines, constructors, set operations…) or by encoding/json is discarded — the error component of every such call is extracted and used (tested, returned or wrapped). The one reviewed idiom: RangeSearch/PrioritySearch whose callback can only return nil or rtree.Stop (then the search cannot fail)",
		Floor: 150,
		Run:   runC03Errors,
	})
}

// callbackOnlyNilOrStop: every return of the closure is the constant nil or
// the rtree.Stop sentinel.
func callbackOnlyNilOrStop(fn *ssa.Function) bool {
	if fn == nil || fn.Blocks == nil {
		return false
	}
	for _, r := range returnsOf(fn) {
		if len(r.Results) != 1 {
			return false
		}
		v := r.Results[0]
		if isNilConst(v) {
			continue
		}
		if ld, ok := v.(*ssa.UnOp); ok {
			if g, ok := ld.X.(*ssa.Global); ok && g.Name() == "Stop" {
				continue
			}
		}
		// result of a helper closure that itself only returns nil/Stop
		if call, ok := v.(*ssa.Call); ok {
			if cal := staticCallee(call); cal != nil && cal != fn && callbackOnlyNilOrStop(cal) {
				continue
			}
		}
		return false
	}
	return true
}

func runC03Errors(c *Ctx) {
	n := 0
	for _, f := range c.P.Funcs {
		fn := FuncName(f)
		eachInstr(f, func(in ssa.Instruction) {
			call, ok := in.(*ssa.Call)
			if !ok {
				return
			}
			cal := staticCallee(call)
			if cal == nil {
				return
			}
			res := cal.Signature.Results()
			if res.Len() == 0 || !isErrorType(res.At(res.Len()-1).Type()) {
				return
			}
			name := extName(cal)
			if !(c.P.InRepo(cal) || strings.HasPrefix(name, "encoding/json.")) {
				return
			}
			n++
			construct := "error result of " + name
			used := false
			if res.Len() == 1 {
				used = len(*call.Referrers()) > 0
			} else {
				for _, r := range *call.Referrers() {
					if ex, ok := r.(*ssa.Extract); ok && ex.Index == res.Len()-1 && len(*ex.Referrers()) > 0 {
						used = true
					}
				}
			}
			if used {
				c.OK(call.Pos(), fn, construct, "error is extracted and used")
				return
			}
			if strings.HasSuffix(name, ".RangeSearch") || strings.HasSuffix(name, ".PrioritySearch") {
				args := call.Call.Args
				cb := closureOf(args[len(args)-1])
				if callbackOnlyNilOrStop(cb) {
					c.Except(call.Pos(), fn, construct, "the callback can only return nil or rtree.Stop (checked on the closure), so the search cannot return an error")
					return
				}
			}
			c.Bad(call.Pos(), fn, construct, "the error is discarded: a failed validation/parse step is silently treated as success")
		})
	}
	if n < 150 {
		c.Errorf("only %d error-returning call sites found", n)
	}
}
