// Command sfcheck decides structural necessary conditions of the 20 fixed
// properties of peterstace/simplefeatures by static analysis of /repo's
// current working tree (go/packages + go/types + go/ssa). It never executes
// repository code.
package main

import (
	"flag"
	"fmt"
	"os"
	"path/filepath"
	"sort"
	"strconv"
	"strings"
	"time"
)

var allRules []*Rule

func register(r *Rule) { allRules = append(allRules, r) }

var propExplanation = map[string]string{}
var propAssumptions = map[string][]string{}

func rulesFor(prop string) []*Rule {
	var rs []*Rule
	for _, r := range allRules {
		for _, p := range r.Props {
			if p == prop {
				rs = append(rs, r)
				break
			}
		}
	}
	sort.SliceStable(rs, func(i, j int) bool { return rs[i].ID < rs[j].ID })
	return rs
}

func configsFor(tier string) []BuildConfig {
	if tier == "thorough" {
		return []BuildConfig{{"linux", "amd64"}, {"linux", "386"}, {"linux", "s390x"}, {"windows", "amd64"}}
	}
	return []BuildConfig{{"linux", "amd64"}}
}

func main() {
	if len(os.Args) < 2 {
		fmt.Fprintln(os.Stderr, "usage: sfcheck check -prop Cxx [-tier quick|thorough] [-repo /repo] | sfcheck list | sfcheck explain <replay.json> | sfcheck all")
		os.Exit(2)
	}
	switch os.Args[1] {
	case "check":
		os.Exit(cmdCheck(os.Args[2:]))
	case "all":
		os.Exit(cmdAll(os.Args[2:]))
	case "list":
		for _, r := range allRules {
			fmt.Printf("%-20s %-16s floor=%d %s\n", r.ID, strings.Join(r.Props, ","), r.Floor, r.Doc)
		}
	case "explain":
		os.Exit(cmdExplain(os.Args[2:]))
	case "dump":
		os.Exit(cmdDump(os.Args[2:]))
	case "manifest":
		os.Exit(cmdManifest())
	default:
		fmt.Fprintln(os.Stderr, "unknown command", os.Args[1])
		os.Exit(2)
	}
}

func verifDirDefault() string {
	if d := os.Getenv("VERIF_DIR"); d != "" {
		return d
	}
	return "/verif"
}

func cmdCheck(args []string) int {
	fs := flag.NewFlagSet("check", flag.ExitOnError)
	prop := fs.String("prop", "", "property id")
	tier := fs.String("tier", "", "quick|thorough")
	repo := fs.String("repo", "/repo", "repository root")
	verif := fs.String("verif", verifDirDefault(), "verif dir (evidence, known findings)")
	only := fs.String("rule", "", "only this rule (debugging; evidence still written)")
	verbose := fs.Bool("v", false, "print every obligation")
	noEvidence := fs.Bool("no-evidence", false, "do not write evidence (used by self-validation on scratch copies)")
	fs.Parse(args)
	if *tier == "" {
		*tier = os.Getenv("VERIF_TIER")
	}
	if *tier == "" {
		*tier = "quick"
	}
	if *tier != "quick" && *tier != "thorough" {
		fmt.Println("ERROR bad tier", *tier)
		return 2
	}
	seed, _ := strconv.ParseInt(os.Getenv("VERIF_SEED"), 10, 64)
	rules := rulesFor(*prop)
	if *only != "" {
		var rs []*Rule
		for _, r := range rules {
			if r.ID == *only {
				rs = append(rs, r)
			}
		}
		rules = rs
	}
	if len(rules) == 0 {
		fmt.Printf("ERROR property=%s has no rules\n", *prop)
		return 2
	}
	absRepo, err := filepath.Abs(*repo)
	if err != nil {
		fmt.Println("ERROR", err)
		return 2
	}
	start := time.Now()
	res := &RunResult{Prop: *prop, Tier: *tier, Rules: rules, Counts: map[string]int{}}
	for i, cfg := range configsFor(*tier) {
		p, err := Load(absRepo, cfg)
		if err != nil {
			res.Errs = append(res.Errs, fmt.Sprintf("config %s: %v", cfg, err))
			continue
		}
		obs, errs, counts := runRules(p, rules, *tier)
		res.Configs = append(res.Configs, cfg.String())
		res.Errs = append(res.Errs, errs...)
		if i == 0 {
			res.Obs = obs
			res.Counts = counts
			res.Funcs = len(p.Funcs)
			res.Packages = p.NumPackages
		} else {
			// further configurations: keep only what differs from config 0
			// (new keys, or a different status), so counts stay per-instance.
			base := map[string]Status{}
			for _, o := range res.Obs {
				base[o.Key] = o.Status
			}
			for _, o := range obs {
				if st, ok := base[o.Key]; !ok || st != o.Status {
					res.Obs = append(res.Obs, o)
				}
			}
		}
	}
	if *tier == "thorough" {
		selfValidate(res, absRepo, *verif)
	} else {
		runFixtures(res, *verif)
	}
	res.Wall = since(start)
	if *verbose {
		for _, o := range res.Obs {
			fmt.Printf("  %-10s %s  %s  -- %s\n", o.Status, o.Pos, o.Key, o.Fact)
		}
	}
	findings, err := loadFindings(filepath.Join(*verif, "known_findings.json"))
	if err != nil {
		fmt.Println("ERROR", err)
		return 2
	}
	if *noEvidence {
		return reportNoEvidence(res, findings)
	}
	return report(res, *verif, seed, findings)
}

// reportNoEvidence prints violations only (machine-readable lines
// "OBL <status> <key>") — used when sfcheck analyses a scratch copy.
func reportNoEvidence(res *RunResult, findings []Finding) int {
	known := map[string]bool{}
	for _, f := range findings {
		if f.Property == res.Prop && f.Status == "known" {
			known[f.Key] = true
		}
	}
	exit := 0
	for _, o := range res.Obs {
		if o.Status == Violated || o.Status == Undecided {
			if known[o.Key] && o.Status == Violated {
				continue
			}
			fmt.Printf("OBL %s %s @ %s :: %s\n", o.Status, o.Key, o.Pos, o.Fact)
			exit = 1
		}
	}
	for _, e := range res.Errs {
		fmt.Printf("ERROR property=%s %s\n", res.Prop, e)
		exit = 2
	}
	return exit
}

func cmdAll(args []string) int {
	fs := flag.NewFlagSet("all", flag.ExitOnError)
	repo := fs.String("repo", "/repo", "repository root")
	verbose := fs.Bool("v", false, "print every violated/undecided obligation")
	fs.Parse(args)
	absRepo, _ := filepath.Abs(*repo)
	p, err := Load(absRepo, BuildConfig{"linux", "amd64"})
	if err != nil {
		fmt.Println("ERROR", err)
		return 2
	}
	findings, _ := loadFindings(filepath.Join(verifDirDefault(), "known_findings.json"))
	known := map[string]bool{}
	for _, f := range findings {
		if f.Status == "known" {
			known[f.Key] = true
		}
	}
	obs, errs, counts := runRules(p, allRules, "quick")
	exit := 0
	for _, o := range obs {
		if o.Status == Violated || o.Status == Undecided {
			tag := "OBL"
			if known[o.Key] {
				tag = "KNOWN"
			} else {
				exit = 1
			}
			fmt.Printf("%s %s %s @ %s :: %s\n", tag, o.Status, o.Key, o.Pos, o.Fact)
		} else if *verbose {
			fmt.Printf("ok  %s %s @ %s :: %s\n", o.Status, o.Key, o.Pos, o.Fact)
		}
	}
	for _, e := range errs {
		fmt.Println("ERROR", e)
		exit = 2
	}
	var ids []string
	for id := range counts {
		ids = append(ids, id)
	}
	sort.Strings(ids)
	for _, id := range ids {
		fmt.Printf("COUNT %s %d\n", id, counts[id])
	}
	return exit
}
