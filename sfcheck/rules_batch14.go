package main

import (
	"fmt"
	"go/token"
	"go/types"
	"sort"
	"strings"

	"golang.org/x/tools/go/ssa"
)

var _ = fmt.Sprint
var _ = strings.Contains
var _ = sort.Strings
var _ types.Type
var _ = token.ADD

// ---------------------------------------------------------------------------
// C20.skipempty: an empty member is skipped, it does not end the loop
// ---------------------------------------------------------------------------

func init() {
	register(&Rule{
		ID:    "C20.skipempty",
		Props: []string{"C20", "C09", "C14", "C12", "C15"},
		Doc:   "an empty member is skipped, it does not end the scan: in a loop over the members of a geometry (slice of points/lines/polygons/geometries or i < NumX()), no exit edge of the loop body is taken BECAUSE the current member is empty (its IsEmpty() is true, or the ok flag of its XY()/Coordinates() is false) unless that exit returns an error or panics — `break` (or an early return of the partial result) on the first EMPTY member drops every member after it, so the answer depends on where the empty member sits",
		Floor: 20,
		Run:   runC20SkipEmpty,
	})
}

// emptinessOfLoopElement: cond states (with the given truth) that some value is empty
func statesEmpty(cond ssa.Value, truth bool) bool {
	switch x := cond.(type) {
	case *ssa.Call:
		if cal := staticCallee(x); cal != nil && cal.Name() == "IsEmpty" && pkgOf(cal) == "geom" {
			return truth
		}
	case *ssa.Extract:
		// ok flag of XY()/Coordinates()
		if call, ok := x.Tuple.(*ssa.Call); ok {
			if cal := staticCallee(call); cal != nil && (cal.Name() == "XY" || cal.Name() == "Coordinates") && cal.Signature.Results().Len() == 2 && x.Index == 1 {
				return !truth
			}
		}
	case *ssa.UnOp:
		if x.Op == token.NOT {
			return statesEmpty(x.X, !truth)
		}
	}
	return false
}

func runC20SkipEmpty(c *Ctx) {
	n := 0
	for _, f := range c.P.Funcs {
		if pkgOf(f) != "geom" || len(f.Blocks) == 0 || strings.Contains(c.P.File(f.Pos()), "dcel_debug.go") {
			continue
		}
		fn := FuncName(f)
		for _, h := range f.Blocks {
			if _, ok := loopOverMembers(h); !ok {
				continue
			}
			loop := naturalLoop(h)
			if loop == nil {
				continue
			}
			n++
			bad := ""
			for _, e := range bodyExits(h, loop) {
				ifi, ok := e.from.Instrs[len(e.from.Instrs)-1].(*ssa.If)
				if !ok {
					continue
				}
				truth := e.from.Succs[0] == e.to
				if e.from.Succs[0] == e.from.Succs[1] {
					continue
				}
				if !statesEmpty(ifi.Cond, truth) {
					continue
				}
				if endsInPanic(e.to) {
					continue
				}
				if r := returnAfter(e.to); r != nil {
					// returning an error is a legitimate reaction to an empty member (e.g. TWKB cannot encode it)
					if len(r.Results) > 0 && isErrorType(r.Results[len(r.Results)-1].Type()) && !isNilConst(r.Results[len(r.Results)-1]) {
						continue
					}
					// a predicate that answers as soon as it meets an empty member (IsEmpty-style for-all loops: `if !x.IsEmpty() return false` is the other polarity)
				}
				if inEnclosingLoop(f, h, e.to) {
					continue
				}
				bad = "left at " + c.P.Pos(condPos(ifi)) + " because the current member is empty"
			}
			c.Check(bad == "", firstPos(h), fn, fmt.Sprintf("member loop #%d", loopOrdinal(f, h)), "an empty member never ends the loop", "the loop over the members is "+bad+": the members after the first empty one are never looked at (use `continue`)")
		}
	}
	if n < 20 {
		c.Errorf("only %d member loops found, expected >= 20", n)
	}
}

// ---------------------------------------------------------------------------
// C16.rawfloats: who may read the raw float slice of a Sequence
// ---------------------------------------------------------------------------

var rawFloatsReviewed = map[string]string{
	"geom.(*twkbWriter).writeLineStringCoords": "hands the whole slice to writePointArray together with the sequence's own Length(); the stride used there is the writer's dimension, which is checked against the geometry's coordinates type first",
	"geom.(*twkbWriter).writeLineString":       "hands the whole slice to writePointArray together with the sequence's own Length(); the stride used there is the writer's dimension, which is checked against the geometry's coordinates type first",
	"geom.(*twkbWriter).writePolygon":          "as writeLineString, per ring",
	"geom.(*twkbWriter).writeRing":             "as writeLineString",
	"geom.(*wkbMarshaler).writeSequence":       "copies the whole slice byte for byte into the output",
	"geom.(*wkbMarshaler).writeLineString":     "copies the whole slice byte for byte into the output",
}

func init() {
	register(&Rule{
		ID:    "C16.rawfloats",
		Props: []string{"C16", "C13", "C03", "C06", "C14", "C10", "C17"},
		Doc:   "the flat float slice of a Sequence is interpreted only by Sequence itself: the field Sequence.floats is read only in the methods of Sequence and its constructor (which apply the stride of the sequence's own coordinates type), plus the reviewed writers that copy the whole slice — any other function that walks the floats itself (with a stride of 2, say) mistakes Z and M ordinates for X and Y on XYZ/XYM/XYZM input",
		Floor: 10,
		Run:   runC16RawFloats,
	})
}

func runC16RawFloats(c *Ctx) {
	n := 0
	for _, f := range c.P.Funcs {
		if pkgOf(f) != "geom" || len(f.Blocks) == 0 {
			continue
		}
		fn := FuncName(f)
		root := rootFunc(f)
		own := false
		if root.Signature.Recv() != nil && namedName(root.Signature.Recv().Type()) == "Sequence" {
			own = true
		}
		if FuncName(root) == "geom.NewSequence" {
			own = true
		}
		k := 0
		eachInstr(f, func(in ssa.Instruction) {
			var tn, fld string
			switch x := in.(type) {
			case *ssa.FieldAddr:
				tn, fld = fieldOfAddr(x)
			case *ssa.Field:
				tn, fld = fieldOfField(x)
			default:
				return
			}
			if tn != "Sequence" || fld != "floats" {
				return
			}
			// stores (composite literals building a Sequence) are construction, not interpretation
			if fa, ok := in.(*ssa.FieldAddr); ok {
				onlyStores := true
				for _, r := range *fa.Referrers() {
					if st, ok := r.(*ssa.Store); !ok || st.Addr != ssa.Value(fa) {
						onlyStores = false
					}
				}
				if onlyStores {
					return
				}
			}
			n++
			k++
			construct := fmt.Sprintf("read of Sequence.floats #%d", k)
			switch {
			case own:
				c.Triv(in.Pos(), fn, construct, "Sequence's own code")
			case rawFloatsReviewed[FuncName(root)] != "":
				c.Except(in.Pos(), fn, construct, rawFloatsReviewed[FuncName(root)])
			case isNewHelper(root) && calledOnlyFromSequence(c, root, 0):
				c.OK(in.Pos(), fn, construct, "helper split off Sequence's own code")
			case isNewHelper(root) && calledOnlyFromReviewed(c, root, 0) != "":
				c.Except(in.Pos(), fn, construct, "helper split off reviewed code: "+calledOnlyFromReviewed(c, root, 0))
			case isNewHelper(root) && handedWholeTo(in, "geom.(*twkbWriter).writePointArray"):
				c.Except(in.Pos(), fn, construct, "a later helper that does nothing with the slice but hand it whole to writePointArray, as the reviewed TWKB writers do (the stride used there is the writer's dimension, which is checked against the geometry's coordinates type first)")
			default:
				c.Bad(in.Pos(), fn, construct, "the raw float slice of a Sequence is read outside Sequence's own methods: code that walks it must apply the stride of the sequence's coordinates type (2, 3 or 4 floats per point); going through Get/GetXY/Length is what guarantees that")
			}
		})
	}
	if n < 10 {
		c.Errorf("only %d reads of Sequence.floats found, expected >= 10", n)
	}
}

// handedWholeTo: the field read `in` (a Field value, or the loads of a FieldAddr) is used for
// nothing but as an argument of calls to the named function — never indexed, sliced,
// measured or stored.
func handedWholeTo(in ssa.Instruction, sink string) bool {
	var vals []ssa.Value
	switch x := in.(type) {
	case *ssa.Field:
		vals = append(vals, x)
	case *ssa.FieldAddr:
		for _, r := range *x.Referrers() {
			ld, ok := r.(*ssa.UnOp)
			if !ok || ld.Op != token.MUL {
				if _, isDbg := r.(*ssa.DebugRef); isDbg {
					continue
				}
				return false
			}
			vals = append(vals, ld)
		}
	}
	if len(vals) == 0 {
		return false
	}
	for _, v := range vals {
		uses := 0
		for _, r := range *v.Referrers() {
			if _, isDbg := r.(*ssa.DebugRef); isDbg {
				continue
			}
			cl, ok := r.(*ssa.Call)
			if !ok {
				return false
			}
			cal := staticCallee(cl)
			if cal == nil || FuncName(cal) != sink {
				return false
			}
			uses++
		}
		if uses == 0 {
			return false
		}
	}
	return true
}

func calledOnlyFromSequence(c *Ctx, f *ssa.Function, d int) bool {
	if d > 3 {
		return false
	}
	sites := c.P.callSitesOf(f)
	if len(sites) == 0 {
		return false
	}
	for _, s := range sites {
		r := rootFunc(s.Parent())
		if r.Signature.Recv() != nil && namedName(r.Signature.Recv().Type()) == "Sequence" {
			continue
		}
		if FuncName(r) == "geom.NewSequence" {
			continue
		}
		if isNewHelper(r) && r != f && calledOnlyFromSequence(c, r, d+1) {
			continue
		}
		return false
	}
	return true
}

// calledOnlyFromReviewed: every call site of the helper (introduced since the
// baseline) lies in a reviewed reader of Sequence.floats, or in another such
// helper; returns the reason of (one of) the reviewed owners.
func calledOnlyFromReviewed(c *Ctx, f *ssa.Function, d int) string {
	if d > 3 {
		return ""
	}
	sites := c.P.callSitesOf(f)
	if len(sites) == 0 {
		return ""
	}
	reason := ""
	for _, s := range sites {
		r := rootFunc(s.Parent())
		if why := rawFloatsReviewed[FuncName(r)]; why != "" {
			reason = why
			continue
		}
		if isNewHelper(r) && r != f {
			if why := calledOnlyFromReviewed(c, r, d+1); why != "" {
				reason = why
				continue
			}
		}
		return ""
	}
	return reason
}

// ---------------------------------------------------------------------------
// C03.nvliteral: nobody switches validation off on the caller's behalf
// ---------------------------------------------------------------------------

func init() {
	register(&Rule{
		ID:    "C03.nvliteral",
		Props: []string{"C03", "C08", "C06", "C04", "C05"},
		Doc:   "validation is switched off only by the caller: no function of the library itself constructs a NoValidate value to pass to a decoder or constructor (the option only ever travels from a function's own `...NoValidate` parameter) — a wrapper that decodes with NoValidate{} 'to do the cheap check first' and forgets to validate afterwards hands out invalid geometries",
		Floor: 0,
		Run:   runC03NVLiteral,
	})
}

func runC03NVLiteral(c *Ctx) {
	isNV := func(t types.Type) bool { return namedName(t) == "NoValidate" && pkgOfType(t) == "geom" }
	for _, f := range c.P.Funcs {
		if !c.P.InRepo(f) || len(f.Blocks) == 0 {
			continue
		}
		fn := FuncName(f)
		eachInstr(f, func(in ssa.Instruction) {
			switch x := in.(type) {
			case *ssa.Alloc:
				// new [n]NoValidate (varargs)
				if at, ok := deref(x.Type()).Underlying().(*types.Array); ok && isNV(at.Elem()) && at.Len() > 0 {
					c.Bad(x.Pos(), fn, "NoValidate constructed", "the library passes NoValidate{} itself: the geometry obtained is never validated unless this function does so afterwards — and then the option was not needed")
				}
			case *ssa.MakeSlice:
				if st, ok := x.Type().Underlying().(*types.Slice); ok && isNV(st.Elem()) {
					c.Bad(x.Pos(), fn, "NoValidate constructed", "the library builds a []NoValidate itself instead of forwarding its caller's")
				}
			}
		})
	}
	c.OK(token.NoPos, "-", "scan", "no NoValidate value is constructed in geom, rtree or carto")
}

// ---------------------------------------------------------------------------
// C20.lastindex
// ---------------------------------------------------------------------------

var lastIndexReviewed = map[string]string{
	"geom.(linearInterpolator).interpolate":      "a linearInterpolator is only built by newLinearInterpolator, which panics on an empty sequence",
	"geom.(exactEqualsComparator).lineStringsEq": "reached only when both operands are rings (closed, hence non-empty) of equal length",
}

func init() {
	register(&Rule{
		ID:    "C20.lastindex",
		Props: []string{"C20", "C01"},
		Doc:   "the last control point is only asked for when there is one: every Get/GetXY whose index is Length()-1 (or n-1 with n the sequence's Length()) is dominated by a test that the length is positive / the receiver is not empty, or sits in a reviewed function whose callers guarantee it — on an empty sequence the index is -1 and the library panics (e.g. an EMPTY member of a MultiLineString in an overlay operand)",
		Floor: 3,
		Run:   runC20LastIndex,
	})
}

func runC20LastIndex(c *Ctx) {
	n := 0
	for _, f := range c.P.Funcs {
		if pkgOf(f) != "geom" || len(f.Blocks) == 0 {
			continue
		}
		fn := FuncName(f)
		eachInstr(f, func(in ssa.Instruction) {
			call, ok := in.(*ssa.Call)
			if !ok {
				return
			}
			name := calleeName(call)
			if name != "geom.(Sequence).Get" && name != "geom.(Sequence).GetXY" {
				return
			}
			sub, ok := call.Call.Args[1].(*ssa.BinOp)
			if !ok || sub.Op != token.SUB {
				return
			}
			if k, ok := constInt(sub.Y); !ok || k != 1 {
				return
			}
			lenCall, ok := stripConv(sub.X).(*ssa.Call)
			if !ok || calleeName(lenCall) != "geom.(Sequence).Length" {
				return
			}
			n++
			construct := "last control point"
			if why, ok := lastIndexReviewed[FuncName(rootFunc(f))]; ok {
				c.Except(call.Pos(), fn, construct, why)
				return
			}
			good := false
			for _, g0 := range guardsAt(call) {
				for _, g := range expandGuard(g0) {
					// !IsEmpty()
					if gc, ok := g.Cond.(*ssa.Call); ok && !g.Truth {
						if cal := staticCallee(gc); cal != nil && cal.Name() == "IsEmpty" {
							good = true
						}
					}
					bo, ok := g.Cond.(*ssa.BinOp)
					if !ok {
						continue
					}
					isLen := func(v ssa.Value) bool {
						v = stripConv(v)
						if v == ssa.Value(lenCall) {
							return true
						}
						if lc, ok := v.(*ssa.Call); ok && calleeName(lc) == "geom.(Sequence).Length" {
							return true
						}
						return false
					}
					var kc int64
					var haveK bool
					op := bo.Op
					if isLen(bo.X) {
						kc, haveK = constInt(bo.Y)
					} else if isLen(bo.Y) {
						kc, haveK = constInt(bo.X)
						switch op {
						case token.LSS:
							op = token.GTR
						case token.GTR:
							op = token.LSS
						case token.LEQ:
							op = token.GEQ
						case token.GEQ:
							op = token.LEQ
						}
					}
					if !haveK {
						continue
					}
					if !g.Truth {
						switch op {
						case token.EQL:
							op = token.NEQ
						case token.NEQ:
							op = token.EQL
						case token.LSS:
							op = token.GEQ
						case token.LEQ:
							op = token.GTR
						case token.GTR:
							op = token.LEQ
						case token.GEQ:
							op = token.LSS
						}
					}
					switch {
					case op == token.GTR && kc >= 0, op == token.GEQ && kc >= 1, op == token.NEQ && kc == 0, op == token.EQL && kc >= 1:
						good = true
					}
				}
			}
			c.Check(good, call.Pos(), fn, construct, "asked for only where the sequence is known to be non-empty", "the point at index Length()-1 is read without a dominating test that the sequence is non-empty: for an empty sequence the index is -1 and the library panics")
		})
	}
	if n < 3 {
		c.Errorf("only %d reads of a last control point found, expected >= 3", n)
	}
}

// ---------------------------------------------------------------------------
// C20.selfargs: the same expression on both sides
// ---------------------------------------------------------------------------

func init() {
	register(&Rule{
		ID:    "C20.selfargs",
		Props: []string{"C20", "C01", "C12", "C09", "C02"},
		Doc:   "no symmetric two-argument helper is called with the same expression twice, and no comparison or subtraction has the same expression on both sides: fastMin/fastMax/math.Min/math.Max(a, a), a - a, a / a, a == a, a < a (structural equality of the operands, loads of the same field included) compute nothing — in this code base such a line is an X/Y (or a/b) copy-paste slip, e.g. a snapping tolerance derived from |X| twice instead of |X| and |Y|",
		Floor: 0,
		Run:   runC20SelfArgs,
	})
}

func runC20SelfArgs(c *Ctx) {
	n := 0
	for _, f := range c.P.Funcs {
		if !c.P.InRepo(f) || len(f.Blocks) == 0 || strings.Contains(c.P.File(f.Pos()), "dcel_debug.go") {
			continue
		}
		fn := FuncName(f)
		eachInstr(f, func(in ssa.Instruction) {
			switch x := in.(type) {
			case *ssa.Call:
				switch calleeName(x) {
				case "geom.fastMin", "geom.fastMax", "math.Min", "math.Max", "rtree.fastMin", "rtree.fastMax":
				default:
					return
				}
				if len(x.Call.Args) != 2 {
					return
				}
				n++
				if _, isC := x.Call.Args[0].(*ssa.Const); isC {
					return
				}
				if sameValueDeep(x.Call.Args[0], x.Call.Args[1], 0) {
					c.Bad(x.Pos(), fn, "min/max of an expression with itself", "both arguments of "+calleeName(x)+" are the same expression: one of them was meant to be the other ordinate/operand (copy-paste slip)")
				}
			case *ssa.BinOp:
				switch x.Op {
				case token.SUB, token.QUO, token.EQL, token.NEQ, token.LSS, token.GTR, token.LEQ, token.GEQ:
				default:
					return
				}
				if !isFloat(x.X.Type()) {
					return
				}
				if _, isC := x.X.(*ssa.Const); isC {
					return
				}
				n++
				// x != x is the NaN idiom
				if x.Op == token.NEQ || x.Op == token.EQL {
					return
				}
				if sameValueDeep(x.X, x.Y, 0) {
					c.Bad(x.Pos(), fn, "operation on an expression and itself", "both operands of `"+x.Op.String()+"` are the same expression: the result is a constant, one operand was meant to be something else")
				}
			}
		})
	}
	c.OK(token.NoPos, "-", "scan", fmt.Sprintf("%d min/max calls and float comparisons/differences looked at, none with identical operands", n))
}

// sameValueDeep: sameValue, also through pure calls of math functions and of the repository's small float helpers
func sameValueDeep(a, b ssa.Value, d int) bool {
	if sameValue(a, b) {
		return true
	}
	if d > 4 {
		return false
	}
	ca, ok1 := a.(*ssa.Call)
	cb, ok2 := b.(*ssa.Call)
	if ok1 && ok2 {
		fa, fb := staticCallee(ca), staticCallee(cb)
		if fa == nil || fa != fb || len(ca.Call.Args) != len(cb.Call.Args) {
			return false
		}
		pure := false
		if fa.Pkg != nil && fa.Pkg.Pkg.Path() == "math" {
			pure = true
		}
		switch fa.Name() {
		case "ulpSize", "sq", "dtor", "rtod":
			pure = true
		}
		if !pure {
			return false
		}
		for i := range ca.Call.Args {
			if !sameValueDeep(ca.Call.Args[i], cb.Call.Args[i], d+1) {
				return false
			}
		}
		return true
	}
	return false
}

// ---------------------------------------------------------------------------
// more specifications by interpretation
// ---------------------------------------------------------------------------

func init() {
	register(&Rule{
		ID:    "C03.seqfinite",
		Props: []string{"C03", "C04"},
		Doc:   "Sequence.validate interpreted on concrete 3-point sequences of all four coordinates types with NaN, +Inf or -Inf placed in the X or the Y of each point in turn (72 models) returns an error every time, and nil when every X and Y is finite even if a Z or M is NaN: the first point is checked like any other, Z/M are not",
		Floor: 1,
		Run:   runC03SeqFinite,
	})
	register(&Rule{
		ID:    "C03.ring",
		Props: []string{"C03"},
		Doc:   "validateRing interpreted with its four checks opaque (Validate, IsEmpty, IsClosed, IsSimple) and the ring length 0, 3, 4 or 5: nil exactly when Validate returned nil, the ring is non-empty, closed and simple — no check is skipped on the strength of the number of control points (a 4-point ring can be collinear or repeat a vertex)",
		Floor: 1,
		Run:   runC03Ring,
	})
	register(&Rule{
		ID:    "C15.closed",
		Props: []string{"C15", "C03", "C02"},
		Doc:   "LineString.IsClosed interpreted on concrete sequences of 0..5 points: true exactly when the line is non-empty and its first and last control points have the same XY — for every length, two and three points included (a three-point line that returns to its start has no boundary)",
		Floor: 1,
		Run:   runC15Closed,
	})
	register(&Rule{
		ID:    "C17.cumulative",
		Props: []string{"C17"},
		Doc:   "newLinearInterpolator interpreted on concrete sequences with and without repeated control points: the cumulative table has exactly one entry per segment (n-1), entry i is the length of the first i+1 segments (zero-length segments included, so that the table index IS the segment index that interpolate uses), and total is the last entry",
		Floor: 1,
		Run:   runC17Cumulative,
	})
	register(&Rule{
		ID:    "C17.snap",
		Props: []string{"C17", "C16"},
		Doc:   "snapToGridFloat64 interpreted on concrete values (both signs, magnitudes from 1e-3 to 1e6, halves included) for decimal places -3..3: the result is round(f x 10^dp) / 10^dp (round half away from zero) — negative ordinates included, i.e. the function is odd — and differs from f by at most half a grid step",
		Floor: 1,
		Run:   runC17Snap,
	})
	register(&Rule{
		ID:    "C18.dispatch",
		Props: []string{"C18"},
		Doc:   "exactEqualsComparator.geometriesEq interpreted for every pair of geometry types with the per-type comparators opaque and every other question (emptiness, coordinates types, …) answered adversarially: different types -> false; equal types -> exactly the answer of that type's own comparator. No shortcut decides equality from emptiness or the coordinates type alone (MULTIPOINT EMPTY and MULTIPOINT(EMPTY) are different values)",
		Floor: 1,
		Run:   runC18Dispatch,
	})
}

func runC03SeqFinite(c *Ctx) {
	f := c.P.Func("geom.(Sequence).validate")
	if f == nil {
		c.Errorf("anchor geom.(Sequence).validate does not resolve")
		return
	}
	inl := func(g *ssa.Function) bool {
		switch FuncName(g) {
		case "geom.(Sequence).Length", "geom.(Sequence).GetXY", "geom.(Sequence).Get", "geom.(CoordinatesType).Dimension", "geom.(CoordinatesType).Is3D", "geom.(CoordinatesType).IsMeasured", "geom.(XY).validate":
			return true
		}
		return false
	}
	problem, undec := "", ""
	models := 0
	bads := []float64{nan(), inf(1), inf(-1)}
	for ct := 0; ct < 4 && problem == "" && undec == ""; ct++ {
		dim := 2 + (ct & 1) + (ct>>1)&1
		// bad position: -1 none; otherwise float index; also "zm": NaN in a Z/M slot only
		var cases [][2]int // (index, which bad value); index -1 = all finite; -2 = NaN only in Z/M slots
		cases = append(cases, [2]int{-1, 0})
		if dim > 2 {
			cases = append(cases, [2]int{-2, 0})
		}
		for p := 0; p < 3; p++ {
			for axis := 0; axis < 2; axis++ {
				for b := range bads {
					cases = append(cases, [2]int{p*dim + axis, b})
				}
			}
		}
		for _, cs := range cases {
			models++
			m := &Model{Num: map[string]float64{"$0.ctype": float64(ct)}, Bool: map[string]bool{}, Missing: map[string]bool{}}
			it := &k4interp{p: c.P, m: m, mem: map[string]k4val{}, inline: inl}
			it.answer = func(key string, isBool bool) (k4val, bool) {
				// the error values built by the violation helpers are non-nil
				if isBool && (strings.Contains(key, "errAtXY(") || strings.Contains(key, ").err(") || strings.Contains(key, "geom.wrap(")) {
					return k4val{kind: 1, b: strings.Contains(key, "!=nil")}, true
				}
				return k4val{}, false
			}
			it.mem["$0.floats"] = k4val{kind: 8, s: "F", ln: 3 * dim, cp: 3 * dim}
			for i := 0; i < 3*dim; i++ {
				v := float64(i + 1)
				if cs[0] == i {
					v = bads[cs[1]]
				}
				if cs[0] == -2 && i%dim >= 2 {
					v = nan()
				}
				it.mem[fmt.Sprintf("F[%d]", i)] = k4val{kind: 2, f: v}
			}
			res, err := it.call(f, []k4val{{kind: 3, s: "$0"}}, nil)
			if err != nil || len(res) != 1 {
				undec = fmt.Sprintf("%v %v %s", err, res, trunc(missingList(m)))
				break
			}
			isNil := res[0].String() == "nil"
			wantErr := cs[0] >= 0
			if wantErr && isNil {
				problem = fmt.Sprintf("coordinates type %d: a non-finite %s in point %d is accepted", ct, map[int]string{0: "X", 1: "Y"}[cs[0]%dim], cs[0]/dim)
				break
			}
			if !wantErr && !isNil {
				problem = fmt.Sprintf("coordinates type %d: a sequence whose X and Y are all finite is rejected (%s)", ct, trunc(res[0].String()))
				break
			}
		}
	}
	reportK4(c, f, "non-finite X/Y at any position", undec, problem, fmt.Sprintf("an error exactly when some X or Y is NaN/Inf, at any of the positions, for all 4 coordinates types (%d models)", models))
}

func inf(s int) float64 {
	if s < 0 {
		return -1 / zeroF
	}
	return 1 / zeroF
}

var zeroF = 0.0

func runC03Ring(c *Ctx) {
	f := c.P.Func("geom.validateRing")
	if f == nil {
		c.Errorf("anchor geom.validateRing does not resolve")
		return
	}
	problem, undec := "", ""
	models := 0
	for mask := 0; mask < 16 && problem == "" && undec == ""; mask++ {
		for _, ln := range []float64{0, 3, 4, 5} {
			vOK, nonEmpty, closed, simple := mask&1 != 0, mask&2 != 0, mask&4 != 0, mask&8 != 0
			models++
			m := &Model{Num: map[string]float64{}, Bool: map[string]bool{}, Missing: map[string]bool{}}
			it := &k4interp{p: c.P, m: m, mem: map[string]k4val{}}
			it.answer = func(key string, isBool bool) (k4val, bool) {
				switch {
				case isBool && strings.Contains(key, ").Validate(") && strings.Contains(key, "==nil"):
					return k4val{kind: 1, b: vOK}, true
				case isBool && strings.Contains(key, ").Validate(") && strings.Contains(key, "!=nil"):
					return k4val{kind: 1, b: !vOK}, true
				case isBool && strings.Contains(key, ").IsEmpty("):
					return k4val{kind: 1, b: !nonEmpty}, true
				case isBool && strings.Contains(key, ").IsClosed("):
					return k4val{kind: 1, b: closed}, true
				case isBool && strings.Contains(key, ").IsSimple("):
					return k4val{kind: 1, b: simple}, true
				case !isBool && (strings.Contains(key, ").Length(") || strings.HasPrefix(key, "len(") || strings.Contains(key, "NumPoints") || strings.Contains(key, "controlPoints")):
					return k4val{kind: 2, f: ln}, true
				}
				return k4val{}, false
			}
			res, err := it.call(f, []k4val{{kind: 3, s: "$0"}}, nil)
			if err != nil || len(res) != 1 {
				undec = fmt.Sprintf("%v %v %s", err, res, trunc(missingList(m)))
				break
			}
			isNil := res[0].String() == "nil"
			want := vOK && nonEmpty && closed && simple
			if isNil != want {
				problem = fmt.Sprintf("a ring of %v points with Validate ok=%v, non-empty=%v, closed=%v, simple=%v is %s", ln, vOK, nonEmpty, closed, simple, map[bool]string{true: "accepted", false: "rejected"}[isNil])
				break
			}
		}
	}
	reportK4(c, f, "all four ring checks apply", undec, problem, fmt.Sprintf("nil iff valid line, non-empty, closed and simple — whatever the number of points (%d models)", models))
}

func runC15Closed(c *Ctx) {
	f := c.P.Func("geom.(LineString).IsClosed")
	if f == nil {
		c.Errorf("anchor geom.(LineString).IsClosed does not resolve")
		return
	}
	inl := func(g *ssa.Function) bool {
		switch FuncName(g) {
		case "geom.(Sequence).Length", "geom.(Sequence).GetXY", "geom.(Sequence).Get", "geom.(CoordinatesType).Dimension", "geom.(LineString).IsEmpty", "geom.(LineString).Coordinates", "geom.(LineString).StartPoint", "geom.(LineString).EndPoint":
			return true
		}
		return false
	}
	problem, undec := "", ""
	models := 0
	for n := 0; n <= 5 && problem == "" && undec == ""; n++ {
		for _, same := range []bool{true, false} {
			if n == 0 && !same {
				continue
			}
			models++
			m := &Model{Num: map[string]float64{"$0.seq.ctype": 0}, Bool: map[string]bool{}, Missing: map[string]bool{}}
			it := &k4interp{p: c.P, m: m, mem: map[string]k4val{}, inline: inl}
			it.mem["$0.seq.floats"] = k4val{kind: 8, s: "F", ln: 2 * n, cp: 2 * n}
			for i := 0; i < n; i++ {
				x, y := float64(i+1), float64(10+i)
				if same && i == n-1 {
					x, y = 1, 10
				}
				it.mem[fmt.Sprintf("F[%d]", 2*i)] = k4val{kind: 2, f: x}
				it.mem[fmt.Sprintf("F[%d]", 2*i+1)] = k4val{kind: 2, f: y}
			}
			res, err := it.call(f, []k4val{{kind: 3, s: "$0"}}, nil)
			if err != nil || len(res) != 1 || res[0].kind != 1 {
				undec = fmt.Sprintf("n=%d: %v %v %s", n, err, res, trunc(missingList(m)))
				break
			}
			want := n > 0 && (same || n == 1)
			if res[0].b != want {
				problem = fmt.Sprintf("a line of %d control points whose first and last points are %s is reported closed=%v, expected %v", n, map[bool]string{true: "equal", false: "different"}[same || n == 1], res[0].b, want)
			}
		}
	}
	reportK4(c, f, "closed iff non-empty and first == last", undec, problem, fmt.Sprintf("for 0..5 control points (%d models)", models))
}

func runC17Cumulative(c *Ctx) {
	f := c.P.Func("geom.newLinearInterpolator")
	if f == nil {
		c.Errorf("anchor geom.newLinearInterpolator does not resolve")
		return
	}
	inl := func(g *ssa.Function) bool {
		switch FuncName(g) {
		case "geom.(Sequence).Length", "geom.(Sequence).GetXY", "geom.(Sequence).Get", "geom.(CoordinatesType).Dimension", "geom.(XY).distanceTo", "geom.(XY).Sub", "geom.(XY).Length":
			return true
		}
		return false
	}
	problem, undec := "", ""
	models := 0
	// points on the X axis: segment lengths are the differences
	for _, xs := range [][]float64{{0, 3}, {0, 3, 7}, {0, 3, 3, 7}, {0, 0, 3, 7}, {0, 3, 7, 7}, {5, 5, 5, 9, 9}} {
		models++
		n := len(xs)
		m := &Model{Num: map[string]float64{"$0.ctype": 0}, Bool: map[string]bool{}, Missing: map[string]bool{}}
		it := &k4interp{p: c.P, m: m, mem: map[string]k4val{}, inline: inl}
		it.mem["$0.floats"] = k4val{kind: 8, s: "F", ln: 2 * n, cp: 2 * n}
		for i, x := range xs {
			it.mem[fmt.Sprintf("F[%d]", 2*i)] = k4val{kind: 2, f: x}
			it.mem[fmt.Sprintf("F[%d]", 2*i+1)] = k4val{kind: 2, f: 0}
		}
		res, err := it.call(f, []k4val{{kind: 3, s: "$0"}}, nil)
		if err != nil || len(res) != 1 || res[0].kind != 3 {
			undec = fmt.Sprintf("%v %v %s", err, res, trunc(missingList(m)))
			break
		}
		cum, e1 := it.lookup(res[0].s+".cumulative", types.NewSlice(f64T))
		tot, e2 := it.lookup(res[0].s+".total", f64T)
		if e1 != nil || e2 != nil || cum.kind != 8 || tot.kind != 2 {
			undec = fmt.Sprintf("cannot read the interpolator's fields: %v %v", e1, e2)
			break
		}
		if cum.ln != n-1 {
			problem = fmt.Sprintf("for control points at x=%v the cumulative table has %d entries, expected one per segment (%d): its index no longer is the segment index", xs, cum.ln, n-1)
			break
		}
		run := 0.0
		for i := 0; i < n-1; i++ {
			run += xs[i+1] - xs[i]
			v, e := it.lookup(fmt.Sprintf("%s[%d]", cum.s, cum.off+i), f64T)
			if e != nil || v.kind != 2 || v.f != run {
				problem = fmt.Sprintf("for control points at x=%v entry %d of the cumulative table is %v, expected %v", xs, i, v.f, run)
				break
			}
		}
		if problem == "" && tot.f != run {
			problem = fmt.Sprintf("for control points at x=%v the total is %v, expected %v", xs, tot.f, run)
		}
		if problem != "" {
			break
		}
	}
	reportK4(c, f, "one cumulative length per segment", undec, problem, fmt.Sprintf("entry i = length of segments 0..i, zero-length segments included (%d models)", models))
}

func runC17Snap(c *Ctx) {
	f := c.P.Func("geom.snapToGridFloat64")
	if f == nil {
		c.Errorf("anchor geom.snapToGridFloat64 does not resolve")
		return
	}
	problem, undec := "", ""
	models := 0
	vals := []float64{0, 0.004, 0.26, 0.5, 1.5, 2.5, 12.34, 1234, 5678, 44, 45, 55, 949.9, 950, 123456.7}
	for dp := -3; dp <= 3 && problem == "" && undec == ""; dp++ {
		for _, v0 := range vals {
			for _, sgn := range []float64{1, -1} {
				v := v0 * sgn
				models++
				m := &Model{Num: map[string]float64{}, Bool: map[string]bool{}, Missing: map[string]bool{}}
				it := &k4interp{p: c.P, m: m, mem: map[string]k4val{}}
				res, err := it.call(f, []k4val{{kind: 2, f: v}, {kind: 2, f: float64(dp)}}, nil)
				if err != nil || len(res) != 1 || res[0].kind != 2 {
					undec = fmt.Sprintf("%v %v %s", err, res, trunc(missingList(m)))
					break
				}
				// reference: decimal rounding half away from zero, computed on the side where the scale is an integer
				var want float64
				switch {
				case dp > 0:
					s := pow10i(dp)
					want = roundHalfAway(v*s) / s
				case dp < 0:
					s := pow10i(-dp)
					want = roundHalfAway(v/s) * s
				default:
					want = roundHalfAway(v)
				}
				got := res[0].f
				if got != want && !(got == 0 && want == 0) {
					problem = fmt.Sprintf("snapToGridFloat64(%v, %d) = %v, expected %v", v, dp, got, want)
					break
				}
			}
		}
	}
	reportK4(c, f, "decimal rounding, odd in its argument", undec, problem, fmt.Sprintf("round(f x 10^dp)/10^dp for both signs (%d models)", models))
}

func pow10i(k int) float64 {
	r := 1.0
	for i := 0; i < k; i++ {
		r *= 10
	}
	return r
}

func roundHalfAway(x float64) float64 {
	if x < 0 {
		return -roundHalfAway(-x)
	}
	fl := float64(int64(x))
	if x-fl >= 0.5 {
		return fl + 1
	}
	return fl
}

func runC18Dispatch(c *Ctx) {
	f := c.P.Func("geom.(exactEqualsComparator).geometriesEq")
	if f == nil {
		c.Errorf("anchor geom.(exactEqualsComparator).geometriesEq does not resolve")
		return
	}
	cmpOf := map[int]string{0: "geometryCollectionsEq", 1: "pointsEq", 2: "lineStringsEq", 3: "polygonsEq", 4: "multiPointsEq", 5: "multiLineStringsEq", 6: "multiPolygonsEq"}
	problem, undec := "", ""
	models := 0
	for t1 := 0; t1 < 7 && problem == "" && undec == ""; t1++ {
		for t2 := 0; t2 < 7 && problem == "" && undec == ""; t2++ {
			for _, ans := range []bool{true, false} {
				for _, other := range []bool{true, false} {
					models++
					m := &Model{Num: map[string]float64{}, Bool: map[string]bool{}, Missing: map[string]bool{}}
					it := &k4interp{p: c.P, m: m, mem: map[string]k4val{}}
					called := ""
					it.onOpaque = func(name string, args []k4val) {
						for _, cn := range cmpOf {
							if strings.HasSuffix(name, ")."+cn) {
								called = cn
							}
						}
					}
					it.answer = func(key string, isBool bool) (k4val, bool) {
						if !isBool {
							if strings.Contains(key, "(Geometry).Type($1)") || strings.HasSuffix(key, "$1.gtype") {
								return k4val{kind: 2, f: float64(t1)}, true
							}
							if strings.Contains(key, "(Geometry).Type($2)") || strings.HasSuffix(key, "$2.gtype") {
								return k4val{kind: 2, f: float64(t2)}, true
							}
							if strings.Contains(key, "CoordinatesType(") || strings.HasSuffix(key, "ctype") {
								return k4val{kind: 2, f: 0}, true
							}
							return k4val{}, false
						}
						for _, cn := range cmpOf {
							if strings.Contains(key, ")."+cn+"(") {
								return k4val{kind: 1, b: ans}, true
							}
						}
						return k4val{kind: 1, b: other}, true // emptiness etc.: both polarities are tried
					}
					res, err := it.call(f, []k4val{{kind: 3, s: "$0"}, {kind: 3, s: "$1"}, {kind: 3, s: "$2"}}, nil)
					if err != nil || len(res) != 1 || res[0].kind != 1 {
						undec = fmt.Sprintf("types %d,%d: %v %v %s", t1, t2, err, res, trunc(missingList(m)))
						break
					}
					want := t1 == t2 && ans
					if res[0].b != want {
						problem = fmt.Sprintf("geometry types %d and %d, the type's comparator answering %v and every other question answering %v: geometriesEq returns %v (comparator consulted: %q), expected %v", t1, t2, ans, other, res[0].b, called, want)
						break
					}
					if t1 == t2 && called != cmpOf[t1] {
						problem = fmt.Sprintf("geometry type %d is compared with %q, expected %q", t1, called, cmpOf[t1])
						break
					}
				}
			}
		}
	}
	reportK4(c, f, "type dispatch only", undec, problem, fmt.Sprintf("different types -> false, equal types -> that type's comparator, nothing else decides (%d models)", models))
}

func init() {
	register(&Rule{
		ID:    "C07.headerorder",
		Props: []string{"C07", "C08"},
		Doc:   "the optional TWKB headers are read in the order of the format: parseHeaders interpreted with its steps opaque for all 8 combinations of the extended-precision, size and bounding-box flags performs exactly: type-and-precision byte, metadata byte, then — each only if flagged — extended precision, size, bounding box, in that order (the order in which the writer's formTWKB concatenates them); an error of any step is returned at once",
		Floor: 1,
		Run:   runC07HeaderOrder,
	})
}

func runC07HeaderOrder(c *Ctx) {
	f := c.P.Func("geom.(*twkbParser).parseHeaders")
	if f == nil {
		c.Errorf("anchor geom.(*twkbParser).parseHeaders does not resolve")
		return
	}
	steps := []string{"parseTypeAndPrecision", "parseMetadataHeader", "parseExtendedPrecision", "parseSize", "parseBBox"}
	problem, undec := "", ""
	models := 0
	for mask := 0; mask < 8 && problem == "" && undec == ""; mask++ {
		hasExt, hasSize, hasBBox := mask&1 != 0, mask&2 != 0, mask&4 != 0
		for failAt := -1; failAt < len(steps) && problem == "" && undec == ""; failAt++ {
			models++
			m := &Model{Num: map[string]float64{}, Bool: map[string]bool{"$0.hasExt": hasExt, "$0.hasSize": hasSize, "$0.hasBBox": hasBBox}, Missing: map[string]bool{}}
			it := &k4interp{p: c.P, m: m, mem: map[string]k4val{}}
			var seq []string
			it.onOpaque = func(name string, args []k4val) {
				for _, s := range steps {
					if strings.HasSuffix(name, ")."+s) {
						seq = append(seq, s)
					}
				}
			}
			it.answer = func(key string, isBool bool) (k4val, bool) {
				if !isBool {
					return k4val{}, false
				}
				for i, s := range steps {
					if strings.Contains(key, ")."+s+"(") {
						fails := i == failAt
						if strings.Contains(key, "!=nil") {
							return k4val{kind: 1, b: fails}, true
						}
						if strings.Contains(key, "==nil") {
							return k4val{kind: 1, b: !fails}, true
						}
					}
				}
				return k4val{}, false
			}
			res, err := it.call(f, []k4val{{kind: 3, s: "$0"}}, nil)
			if err != nil || len(res) != 1 {
				undec = fmt.Sprintf("%v %v %s", err, res, trunc(missingList(m)))
				break
			}
			var want []string
			for i, s := range steps {
				if (i == 2 && !hasExt) || (i == 3 && !hasSize) || (i == 4 && !hasBBox) {
					continue
				}
				want = append(want, s)
				if i == failAt {
					break
				}
			}
			failed := false
			for _, s := range want {
				if failAt >= 0 && s == steps[failAt] {
					failed = true
				}
			}
			if strings.Join(seq, ",") != strings.Join(want, ",") {
				problem = fmt.Sprintf("flags ext=%v size=%v bbox=%v (step failing: %d): the headers are read as [%s], the format's order is [%s]", hasExt, hasSize, hasBBox, failAt, strings.Join(seq, ","), strings.Join(want, ","))
				break
			}
			isNil := res[0].String() == "nil"
			if !isNil {
				// the error of the last step performed, handed back as it is
				if a, ok := it.answer("("+res[0].String()+"==nil)", true); ok && a.kind == 1 {
					isNil = a.b
				}
			}
			if failed == isNil {
				problem = fmt.Sprintf("flags ext=%v size=%v bbox=%v: step %d failed=%v but parseHeaders returns %s", hasExt, hasSize, hasBBox, failAt, failed, res[0].String())
			}
		}
	}
	reportK4(c, f, "order of the header parts", undec, problem, fmt.Sprintf("type/precision, metadata, [extended precision], [size], [bbox]; first error returned (%d models)", models))
}

// ---------------------------------------------------------------------------
// C10.deepclone
// ---------------------------------------------------------------------------

func init() {
	register(&Rule{
		ID:    "C10.deepclone",
		Props: []string{"C10"},
		Doc:   "the copies that insulate a geometry from its caller's coordinate buffers are deep: in every clone helper for nested float slices (a function from [][]float64 or [][][]float64 to the same type that allocates its result), each element stored into the result is itself the result of a clone helper for the element type (or, for []float64 elements, append([]float64(nil), x...) / a fresh make+copy) — `append([][]float64(nil), src[i]...)` copies the inner slice HEADERS only, so the innermost float arrays stay shared with the caller",
		Floor: 2,
		Run:   runC10DeepClone,
	})
}

func runC10DeepClone(c *Ctx) {
	isClone := func(f *ssa.Function) bool {
		if f == nil || len(f.Blocks) == 0 || len(f.Params) != 1 || f.Signature.Results().Len() != 1 {
			return false
		}
		pt, rt := f.Params[0].Type(), f.Signature.Results().At(0).Type()
		return types.Identical(pt, rt) && isFloatSliceNest(pt)
	}
	n := 0
	for _, f := range c.P.Funcs {
		if pkgOf(f) != "geom" || !isClone(f) {
			continue
		}
		st := f.Params[0].Type().Underlying().(*types.Slice)
		if _, nested := st.Elem().Underlying().(*types.Slice); !nested {
			continue // the 1-D clone: any allocation of floats is deep
		}
		fn := FuncName(f)
		n++
		bad := ""
		stores := 0
		eachInstr(f, func(in ssa.Instruction) {
			sv, ok := in.(*ssa.Store)
			if !ok {
				return
			}
			ia, ok := sv.Addr.(*ssa.IndexAddr)
			if !ok {
				return
			}
			if _, isMake := ia.X.(*ssa.MakeSlice); !isMake {
				return
			}
			stores++
			okElem := false
			if call, ok := sv.Val.(*ssa.Call); ok {
				if cal := staticCallee(call); cal != nil && isClone(cal) {
					okElem = true
				}
				if b, ok := call.Call.Value.(*ssa.Builtin); ok && b.Name() == "append" {
					if est, ok := call.Type().Underlying().(*types.Slice); ok {
						if bt, ok := est.Elem().Underlying().(*types.Basic); ok && bt.Kind() == types.Float64 {
							okElem = true // copies the floats themselves
						}
					}
				}
			}
			if !okElem {
				bad = "the element stored at " + c.P.Pos(sv.Pos()) + " is not a deep copy of the source element"
			}
		})
		// append-style building of the result (dst = append(dst, elem)) is judged on the appended element the same way
		eachInstr(f, func(in ssa.Instruction) {
			call, ok := in.(*ssa.Call)
			if !ok {
				return
			}
			if b, ok := call.Call.Value.(*ssa.Builtin); !ok || b.Name() != "append" || !types.Identical(call.Type(), f.Params[0].Type()) {
				return
			}
			stores++
			// appending the source's elements wholesale shares them
			if len(call.Call.Args) == 2 {
				if sl, ok := call.Call.Args[1].(*ssa.Slice); ok {
					_ = sl
				}
				arg := call.Call.Args[1]
				deep := false
				// variadic single element: a freshly built []T{x} whose x is a clone call
				if s2, ok := arg.(*ssa.Slice); ok {
					if al, ok := s2.X.(*ssa.Alloc); ok {
						deep = true
						for _, r := range *al.Referrers() {
							if ia, ok := r.(*ssa.IndexAddr); ok {
								for _, rr := range *ia.Referrers() {
									if sv, ok := rr.(*ssa.Store); ok {
										cc, isCall := sv.Val.(*ssa.Call)
										if !isCall || staticCallee(cc) == nil || !isClone(staticCallee(cc)) {
											deep = false
										}
									}
								}
							}
						}
					}
				}
				if !deep {
					bad = "the result is extended at " + c.P.Pos(call.Pos()) + " with elements that are not deep copies"
				}
			}
		})
		c.Check(bad == "" && stores > 0, f.Pos(), fn, "deep copy of nested coordinate slices", fmt.Sprintf("every element of the result is itself a clone (%d element stores)", stores), bad+": the innermost float arrays stay shared with the caller, so a geometry built from the 'copy' changes when the caller reuses its buffers")
	}
	if n < 2 {
		c.Errorf("only %d nested clone helpers found, expected >= 2", n)
	}
}

// ---------------------------------------------------------------------------
// C09.onsegment: the point-on-segment predicate is exact at every scale
// ---------------------------------------------------------------------------

func init() {
	register(&Rule{
		ID:    "C09.onsegment",
		Props: []string{"C09"},
		Doc:   "line.intersectsXY interpreted on every point and non-degenerate segment of the 4x4 lattice, at three scales (coordinates x 1, x 2^-30, x 2^40 — all exactly representable, so the exact answer is the same): true exactly when the point lies on the closed segment. An absolute tolerance in the comparison turns every small-scale near miss into a hit (and Intersects into a different relation from Disjoint)",
		Floor: 1,
		Run:   runC09OnSegment,
	})
}

func runC09OnSegment(c *Ctx) {
	f := c.P.Func("geom.(line).intersectsXY")
	if f == nil {
		c.Errorf("anchor geom.(line).intersectsXY does not resolve")
		return
	}
	inl := func(g *ssa.Function) bool { return pkgOf(g) == "geom" && g != f }
	problem, undec := "", ""
	models := 0
	scales := []float64{1, 1.0 / (1 << 30), float64(int64(1) << 40)}
	for _, sc := range scales {
		for ax := int64(0); ax < 4 && problem == "" && undec == ""; ax++ {
			for ay := int64(0); ay < 4 && problem == "" && undec == ""; ay++ {
				for bx := int64(0); bx < 4; bx++ {
					for by := int64(0); by < 4; by++ {
						if ax == bx && ay == by {
							continue
						}
						for px := int64(0); px < 4; px++ {
							for py := int64(0); py < 4; py++ {
								if problem != "" || undec != "" {
									continue
								}
								models++
								m := &Model{Num: map[string]float64{
									"$0.a.X": float64(ax) * sc, "$0.a.Y": float64(ay) * sc, "$0.b.X": float64(bx) * sc, "$0.b.Y": float64(by) * sc,
									"$1.X": float64(px) * sc, "$1.Y": float64(py) * sc,
								}, Bool: map[string]bool{}, Missing: map[string]bool{}}
								it := &k4interp{p: c.P, m: m, mem: map[string]k4val{}, inline: inl}
								res, err := it.call(f, []k4val{{kind: 3, s: "$0"}, {kind: 3, s: "$1"}}, nil)
								if err != nil || len(res) != 1 || res[0].kind != 1 {
									undec = fmt.Sprintf("%v %v %s", err, res, trunc(missingList(m)))
									continue
								}
								cross := (px-ax)*(by-ay) - (py-ay)*(bx-ax)
								inBox := px >= min64(ax, bx) && px <= max64(ax, bx) && py >= min64(ay, by) && py <= max64(ay, by)
								want := cross == 0 && inBox
								if res[0].b != want {
									problem = fmt.Sprintf("at scale %g the point (%d %d) and the segment (%d %d,%d %d): intersectsXY = %v, the point is %s the segment", sc, px, py, ax, ay, bx, by, res[0].b, map[bool]string{true: "on", false: "off"}[want])
								}
							}
						}
					}
				}
			}
		}
	}
	reportK4(c, f, "point on closed segment, exactly", undec, problem, fmt.Sprintf("agrees with exact integer arithmetic at three scales (%d models)", models))
}

func min64(a, b int64) int64 {
	if a < b {
		return a
	}
	return b
}
func max64(a, b int64) int64 {
	if a > b {
		return a
	}
	return b
}

// ---------------------------------------------------------------------------
// C16.literal
// ---------------------------------------------------------------------------

func init() {
	register(&Rule{
		ID:    "C16.literal",
		Props: []string{"C16", "C08", "C04"},
		Doc:   "a collection value is only assembled where its invariant is known: composite literals of Polygon, MultiPoint, MultiLineString, MultiPolygon and GeometryCollection with a member list occur only in that type's own methods and constructor (everyone else — decoders included — goes through New<Type>, which reduces the members to their common coordinates type); and where such a literal fixes the coordinates type to a constant (GeometryCollection{bounds, DimXY}), every member put into the list has been forced to that type (Force2D / ForceCoordinatesType) — a member that keeps its own Z/M makes the collection disagree with its members, which re-encoding then trips over",
		Floor: 10,
		Run:   runC16Literal,
	})
}

func runC16Literal(c *Ctx) {
	collTypes := map[string]bool{"Polygon": true, "MultiPoint": true, "MultiLineString": true, "MultiPolygon": true, "GeometryCollection": true}
	n := 0
	for _, f := range c.P.Funcs {
		if pkgOf(f) != "geom" || len(f.Blocks) == 0 {
			continue
		}
		fn := FuncName(f)
		root := rootFunc(f)
		// literals appear in SSA as an Alloc of the struct type whose fields are stored (complit)
		eachInstr(f, func(in ssa.Instruction) {
			al, ok := in.(*ssa.Alloc)
			if !ok || al.Comment != "complit" {
				return
			}
			tn := namedName(deref(al.Type()))
			if !collTypes[tn] || pkgOfType(deref(al.Type())) != "geom" {
				return
			}
			var listVal, ctypeVal ssa.Value
			for _, r := range *al.Referrers() {
				fa, ok := r.(*ssa.FieldAddr)
				if !ok {
					continue
				}
				for _, rr := range *fa.Referrers() {
					st, ok := rr.(*ssa.Store)
					if !ok || st.Addr != ssa.Value(fa) {
						continue
					}
					if _, isSl := st.Val.Type().Underlying().(*types.Slice); isSl {
						listVal = st.Val
					} else if namedName(st.Val.Type()) == "CoordinatesType" {
						ctypeVal = st.Val
					}
				}
			}
			if listVal == nil || isNilConst(listVal) {
				return // T{} or T{ctype: x}: an empty value
			}
			n++
			construct := tn + " literal"
			owner := false
			if root.Signature.Recv() != nil && namedName(root.Signature.Recv().Type()) == tn {
				owner = true
			}
			if FuncName(root) == "geom.New"+tn {
				owner = true
			}
			if !owner && isNewHelper(root) {
				owner = true
				for _, cs := range c.P.callSitesOf(root) {
					r2 := rootFunc(cs.Parent())
					if !(r2.Signature.Recv() != nil && namedName(r2.Signature.Recv().Type()) == tn) && FuncName(r2) != "geom.New"+tn {
						owner = false
					}
				}
			}
			if !owner {
				c.Bad(al.Pos(), fn, construct, "a "+tn+" is assembled field by field outside "+tn+"'s own methods and New"+tn+": the constructor's normalisation (common coordinates type of the members, own copy of the list) is bypassed, so members can disagree with the collection's coordinates type")
				return
			}
			kc, isConst := int64(0), false
			if ctypeVal != nil {
				kc, isConst = constInt(stripConv(ctypeVal))
			}
			if !isConst {
				c.OK(al.Pos(), fn, construct, "assembled in the type's own code")
				return
			}
			// constant coordinates type: members must have been forced to it
			bad := ""
			for _, ev := range listElements(listVal, 0) {
				call, ok := ev.(*ssa.Call)
				forced := false
				if ok {
					if cal := staticCallee(call); cal != nil {
						switch cal.Name() {
						case "Force2D":
							forced = kc == 0
						case "ForceCoordinatesType":
							if k2, ok := constInt(stripConv(call.Call.Args[len(call.Call.Args)-1])); ok && k2 == kc {
								forced = true
							}
						}
					}
				}
				if !forced {
					bad = "a member stored at " + c.P.Pos(ev.Pos()) + " is not the result of Force2D / ForceCoordinatesType(<that type>)"
				}
			}
			c.Check(bad == "", al.Pos(), fn, construct, fmt.Sprintf("constant coordinates type %d and every member forced to it", kc), fmt.Sprintf("the literal fixes the coordinates type to the constant %d but %s: the collection then reports one type and its member another", kc, bad))
		})
	}
	if n < 10 {
		c.Errorf("only %d collection literals found, expected >= 10", n)
	}
}

// listElements: the values stored into / appended to the slice v (through phis, index stores and appends)
func listElements(v ssa.Value, d int) []ssa.Value {
	if d > 6 || v == nil {
		return nil
	}
	var out []ssa.Value
	switch x := v.(type) {
	case *ssa.Phi:
		for _, e := range x.Edges {
			out = append(out, listElements(e, d+1)...)
		}
	case *ssa.MakeSlice:
		for _, r := range *x.Referrers() {
			if ia, ok := r.(*ssa.IndexAddr); ok {
				for _, rr := range *ia.Referrers() {
					if st, ok := rr.(*ssa.Store); ok && st.Addr == ssa.Value(ia) {
						out = append(out, st.Val)
					}
				}
			}
		}
	case *ssa.Call:
		if b, ok := x.Call.Value.(*ssa.Builtin); ok && b.Name() == "append" && len(x.Call.Args) == 2 {
			out = append(out, listElements(x.Call.Args[0], d+1)...)
			// the appended values: a []T{…} literal (Slice of Alloc) or another slice
			if sl, ok := x.Call.Args[1].(*ssa.Slice); ok {
				if al, ok := sl.X.(*ssa.Alloc); ok {
					for _, r := range *al.Referrers() {
						if ia, ok := r.(*ssa.IndexAddr); ok {
							for _, rr := range *ia.Referrers() {
								if st, ok := rr.(*ssa.Store); ok && st.Addr == ssa.Value(ia) {
									out = append(out, st.Val)
								}
							}
						}
					}
				}
			}
		}
	case *ssa.UnOp:
		if al, ok := x.X.(*ssa.Alloc); ok && x.Op == token.MUL {
			for _, r := range *al.Referrers() {
				if st, ok := r.(*ssa.Store); ok && st.Addr == ssa.Value(al) {
					out = append(out, listElements(st.Val, d+1)...)
				}
			}
		}
	case *ssa.Slice:
		out = append(out, listElements(x.X, d+1)...)
	}
	return out
}

// ---------------------------------------------------------------------------
// C06.positions: how many elements of a position are used
// ---------------------------------------------------------------------------

func init() {
	register(&Rule{
		ID:    "C06.positions",
		Props: []string{"C06"},
		Doc:   "a GeoJSON position contributes exactly as many ordinates as the document's coordinates type has: twoDimFloat64sToSequence and oneDimFloat64sToCoordinates interpreted on concrete positions of 2, 3, 4 and 5 elements (mixed within one list) for the types XY and XYZ: the sequence handed to NewSequence has stride x positions floats — X, Y (and Z for XYZ) of each position in order — extra elements are ignored, in particular the third element of a position in a document that decodes as 2D",
		Floor: 2,
		Run:   runC06Positions,
	})
}

func runC06Positions(c *Ctx) {
	f := c.P.Func("geom.twoDimFloat64sToSequence")
	g := c.P.Func("geom.oneDimFloat64sToCoordinates")
	if f == nil || g == nil {
		c.Errorf("anchors twoDimFloat64sToSequence / oneDimFloat64sToCoordinates do not resolve")
		return
	}
	inl := func(h *ssa.Function) bool {
		switch FuncName(h) {
		case "geom.(CoordinatesType).Dimension", "geom.(CoordinatesType).Is3D", "geom.(CoordinatesType).IsMeasured":
			return true
		}
		return false
	}
	// --- the list form
	{
		problem, undec := "", ""
		models := 0
		lists := [][]int{{2, 2}, {3, 3, 3}, {3, 2, 3}, {4, 3, 5}, {3, 3, 2}, {5, 4}}
		for _, ct := range []int{0, 1} {
			stride := 2 + ct
			for _, lens := range lists {
				minLen := 99
				for _, l := range lens {
					if l < minLen {
						minLen = l
					}
				}
				if minLen < stride {
					continue // the document would not have been given this type
				}
				models++
				m := &Model{Num: map[string]float64{}, Bool: map[string]bool{}, Missing: map[string]bool{}}
				it := &k4interp{p: c.P, m: m, mem: map[string]k4val{}, inline: inl}
				var want []float64
				for pi, l := range lens {
					base := fmt.Sprintf("P%d", pi)
					it.mem[fmt.Sprintf("IN[%d]", pi)] = k4val{kind: 8, s: base, ln: l, cp: l}
					for j := 0; j < l; j++ {
						v := float64(10*(pi+1) + j)
						it.mem[fmt.Sprintf("%s[%d]", base, j)] = k4val{kind: 2, f: v}
						if j < stride {
							want = append(want, v)
						}
					}
				}
				var got []float64
				gotOK := false
				it.onOpaque = func(name string, args []k4val) {
					if !strings.HasSuffix(name, "NewSequence") || len(args) < 1 || args[0].kind != 8 {
						return
					}
					gotOK = true
					got = nil
					for i := 0; i < args[0].ln; i++ {
						v, e := it.lookup(fmt.Sprintf("%s[%d]", args[0].s, args[0].off+i), f64T)
						if e != nil || v.kind != 2 {
							gotOK = false
							return
						}
						got = append(got, v.f)
					}
				}
				_, err := it.call(f, []k4val{{kind: 8, s: "IN", ln: len(lens), cp: len(lens)}, {kind: 2, f: float64(ct)}}, nil)
				if err != nil || !gotOK {
					undec = fmt.Sprintf("%v (sequence seen: %v) %s", err, gotOK, trunc(missingList(m)))
					break
				}
				if fmt.Sprint(got) != fmt.Sprint(want) {
					problem = fmt.Sprintf("positions with %v elements decoded as coordinates type %d give the floats %v, expected %v (the first %d elements of each position)", lens, ct, got, want, stride)
					break
				}
			}
			if problem != "" || undec != "" {
				break
			}
		}
		reportK4(c, f, "stride elements per position", undec, problem, fmt.Sprintf("exactly X, Y (and Z) of every position, extra elements ignored (%d models)", models))
	}
	// --- the single position form
	{
		problem, undec := "", ""
		models := 0
		for _, ct := range []int{0, 1} {
			for _, l := range []int{0, 2, 3, 4} {
				if l != 0 && l < 2+ct {
					continue
				}
				models++
				m := &Model{Num: map[string]float64{}, Bool: map[string]bool{}, Missing: map[string]bool{}}
				it := &k4interp{p: c.P, m: m, mem: map[string]k4val{}, inline: inl}
				for j := 0; j < l; j++ {
					it.mem[fmt.Sprintf("Q[%d]", j)] = k4val{kind: 2, f: float64(7 + j)}
				}
				res, err := it.call(g, []k4val{{kind: 8, s: "Q", ln: l, cp: l}, {kind: 2, f: float64(ct)}}, nil)
				if err != nil || len(res) != 2 || res[1].kind != 1 {
					undec = fmt.Sprintf("%v %v %s", err, res, trunc(missingList(m)))
					break
				}
				if l == 0 {
					if res[1].b {
						problem = "an empty position is reported as a point"
					}
					continue
				}
				rd := func(k string) float64 {
					v, e := it.lookup(res[0].s+k, f64T)
					if e != nil || v.kind != 2 {
						return -1
					}
					return v.f
				}
				x, y, z, mm := rd(".XY.X"), rd(".XY.Y"), rd(".Z"), rd(".M")
				wz := 0.0
				if ct == 1 {
					wz = 9
				}
				if !res[1].b || x != 7 || y != 8 || z != wz || mm != 0 {
					problem = fmt.Sprintf("a position of %d elements decoded as type %d gives (X=%v Y=%v Z=%v M=%v ok=%v), expected (7 8 %v 0 true)", l, ct, x, y, z, mm, res[1].b, wz)
					break
				}
			}
			if problem != "" || undec != "" {
				break
			}
		}
		reportK4(c, g, "ordinates of one position", undec, problem, fmt.Sprintf("X, Y and — only for XYZ — Z; never M; empty position = no point (%d models)", models))
	}
}

// ---------------------------------------------------------------------------
// C14.ringweights
// ---------------------------------------------------------------------------

func init() {
	register(&Rule{
		ID:    "C14.ringweights",
		Props: []string{"C14"},
		Doc:   "the centroid of a polygon does not depend on ring winding: Polygon.Centroid interpreted on a non-empty polygon with one hole, the signed ring areas answered with every combination of signs: the exterior ring's centroid is scaled by +|A|/(|A|-|B|) and the hole's by -|B|/(|A|-|B|) — so reversing either ring changes nothing",
		Floor: 1,
		Run:   runC14RingWeights,
	})
}

func runC14RingWeights(c *Ctx) {
	f := c.P.Func("geom.(Polygon).Centroid")
	if f == nil {
		c.Errorf("anchor geom.(Polygon).Centroid does not resolve")
		return
	}
	problem, undec := "", ""
	models := 0
	for _, sa := range []float64{12, -12} {
		for _, sb := range []float64{2, -2} {
			models++
			m := &Model{Num: map[string]float64{}, Bool: map[string]bool{}, Missing: map[string]bool{}}
			it := &k4interp{p: c.P, m: m, mem: map[string]k4val{}, inline: func(g *ssa.Function) bool {
				switch FuncName(g) {
				case "geom.weightedCentroid", "geom.(Polygon).ExteriorRing", "geom.(Polygon).InteriorRingN", "geom.(Polygon).NumInteriorRings", "geom.(Polygon).NumRings", "geom.(Polygon).IsEmpty", "geom.maxInt":
					return true
				}
				return false
			}}
			// the ring list: shell and one hole, as opaque rings (accessor calls and direct reads of p.rings interpret alike)
			it.mem["$0.rings"] = k4val{kind: 8, s: "RING", ln: 2, cp: 2}
			it.mem["RING[0]"] = k4val{kind: 3, s: "RING[0]"}
			it.mem["RING[1]"] = k4val{kind: 3, s: "RING[1]"}
			type wc struct {
				ring   string
				factor float64
			}
			var calls []wc
			bad := ""
			// each ring's centroid is scaled by (its weight / the total): observe the scalings of centroidOfRing results
			it.onOpaque = func(name string, args []k4val) {
				if !strings.HasSuffix(name, "(XY).Scale") || len(args) != 2 || !strings.Contains(args[0].String(), "centroidOfRing(") {
					return
				}
				if args[1].kind != 2 {
					bad = "non-numeric weight"
					return
				}
				calls = append(calls, wc{args[0].String(), args[1].f})
			}
			it.answer = func(key string, isBool bool) (k4val, bool) {
				switch {
				case isBool && strings.Contains(key, ").IsEmpty("):
					return k4val{kind: 1, b: false}, true
				case !isBool && strings.Contains(key, "NumInteriorRings("):
					return k4val{kind: 2, f: 1}, true
				case !isBool && strings.Contains(key, "signedAreaOfLinearRing(") && (strings.Contains(key, "ExteriorRing") || strings.Contains(key, "(RING[0]")):
					return k4val{kind: 2, f: sa}, true
				case !isBool && strings.Contains(key, "signedAreaOfLinearRing(") && (strings.Contains(key, "InteriorRingN") || strings.Contains(key, "(RING[1]")):
					return k4val{kind: 2, f: sb}, true
				}
				return k4val{}, false
			}
			_, err := it.call(f, []k4val{{kind: 3, s: "$0"}}, nil)
			if err != nil || bad != "" {
				undec = fmt.Sprintf("%v %s %s", err, bad, trunc(missingList(m)))
				break
			}
			if len(calls) != 2 {
				undec = fmt.Sprintf("expected one scaled ring centroid per ring, saw %d", len(calls))
				break
			}
			for _, cl := range calls {
				want := 12.0 / 10
				if strings.Contains(cl.ring, "InteriorRingN") || strings.Contains(cl.ring, "RING[1]") {
					want = -2.0 / 10
				}
				if cl.factor != want {
					problem = fmt.Sprintf("signed areas exterior=%v hole=%v: the centroid of ring %s is scaled by %v, expected %v (= +|A| resp. -|B| over |A|-|B|)", sa, sb, trunc(cl.ring), cl.factor, want)
				}
			}
			if problem != "" {
				break
			}
		}
		if problem != "" || undec != "" {
			break
		}
	}
	reportK4(c, f, "ring weights independent of winding", undec, problem, fmt.Sprintf("+|A|/(|A|-|B|) for the shell, -|B|/(|A|-|B|) for a hole (%d sign combinations)", models))
}

// ---------------------------------------------------------------------------
// C13.sorted / C01.renoded / C14.count / C12.center
// ---------------------------------------------------------------------------

func init() {
	register(&Rule{
		ID:    "C13.sorted",
		Props: []string{"C13"},
		Doc:   "the monotone chain always works on sorted points: in monotoneChain every return is dominated by the sort of the point list (sort.Slice / sort.Sort on the parameter) — the sort is not skipped on the strength of a cheaper test (e.g. 'X is already non-decreasing', which says nothing about the order of points sharing an X), because the hull then depends on the order of the input",
		Floor: 1,
		Run:   runC13Sorted,
	})
	register(&Rule{
		ID:    "C01.renoded",
		Props: []string{"C01", "C02", "C16"},
		Doc:   "a geometry that goes into the overlay has been re-noded: the re-noding routines for lineal and areal geometries (reNodeLineString, reNodeMultiLineString, reNodePolygon, reNodeMultiPolygon, reNodeGeometryCollection) never return the geometry they were given — each result is rebuilt from re-noded parts — except under a test that it is empty; a 'nothing changed' shortcut keyed on a count lets repeated vertices (zero-length segments) and uncut crossings through",
		Floor: 4,
		Run:   runC01Renoded,
	})
	register(&Rule{
		ID:    "C14.count",
		Props: []string{"C14", "C20"},
		Doc:   "the point average counts the points it sums: in the centroid routines an integer count that a sum is divided by is only ever incremented by 1, next to the addition of one point (under that point's ok flag) — adding NumPoints() of a member counts its EMPTY points too and drags the centroid towards nothing",
		Floor: 0,
		Run:   runC14Count,
	})
	register(&Rule{
		ID:    "C12.center",
		Props: []string{"C12"},
		Doc:   "Envelope.Center interpreted on small integer envelopes and on envelopes symmetric about the origin up to +-1e308: the centre is ((min.X+max.X)/2, (min.Y+max.Y)/2) exactly — in particular finite and inside the envelope when max-min is not representable (a centre computed as min + (max-min)/2 overflows to +Inf there) — and the empty envelope has an empty centre",
		Floor: 1,
		Run:   runC12Center,
	})
}

func runC13Sorted(c *Ctx) {
	f := c.P.Func("geom.monotoneChain")
	if f == nil {
		c.Errorf("anchor geom.monotoneChain does not resolve")
		return
	}
	fn := FuncName(f)
	var sorts []ssa.CallInstruction
	eachCall(f, func(ci ssa.CallInstruction) {
		n := calleeName(ci)
		if strings.HasPrefix(n, "sort.") {
			sorts = append(sorts, ci)
			return
		}
		// a helper split off that sorts its argument
		if h := staticCallee(ci); h != nil && isNewHelper(h) {
			eachCall(h, func(c2 ssa.CallInstruction) {
				if strings.HasPrefix(calleeName(c2), "sort.") {
					sorts = append(sorts, ci)
				}
			})
		}
	})
	if len(sorts) == 0 {
		c.Bad(f.Pos(), fn, "points sorted before the sweep", "monotoneChain no longer sorts its points")
		return
	}
	bad := ""
	for _, r := range returnsOf(f) {
		dom := false
		for _, s := range sorts {
			if s.Block() == r.Block() || s.Block().Dominates(r.Block()) {
				dom = true
			}
		}
		if !dom {
			bad = "the return at " + c.P.Pos(instrPos(r)) + " can be reached without the sort having run"
		}
	}
	c.Check(bad == "", f.Pos(), fn, "points sorted before the sweep", "the sort dominates every return", bad+": on that path the sweep runs over points in input order, so the hull depends on how the input happens to be ordered")
}

func runC01Renoded(c *Ctx) {
	n := 0
	for _, name := range []string{"reNodeLineString", "reNodeMultiLineString", "reNodePolygon", "reNodeMultiPolygon", "reNodeGeometryCollection"} {
		f := c.P.Func("geom." + name)
		if f == nil {
			c.Errorf("anchor geom.%s does not resolve", name)
			continue
		}
		n++
		fn := FuncName(f)
		bad := ""
		for _, r := range returnsOf(f) {
			v := r.Results[0]
			isParam := false
			switch x := v.(type) {
			case *ssa.Parameter:
				isParam = x == f.Params[0]
			case *ssa.UnOp:
				if al, ok := x.X.(*ssa.Alloc); ok && x.Op == token.MUL {
					if st := uniqueStore(al); st == ssa.Value(f.Params[0]) {
						isParam = true
					}
				}
			}
			if !isParam {
				continue
			}
			// allowed under an emptiness test of the parameter
			okEmpty := false
			for _, g0 := range guardsAtBlock(r.Block()) {
				for _, g := range expandGuard(g0) {
					if call, ok := g.Cond.(*ssa.Call); ok && g.Truth {
						if cal := staticCallee(call); cal != nil && cal.Name() == "IsEmpty" {
							okEmpty = true
						}
					}
				}
			}
			if !okEmpty {
				bad = "the input geometry itself is returned at " + c.P.Pos(instrPos(r))
			}
		}
		c.Check(bad == "", f.Pos(), fn, "result rebuilt from re-noded parts", "never the input itself (unless empty)", bad+": on that path the geometry enters the overlay without its repeated vertices removed and its crossings cut")
	}
	if n < 4 {
		c.Errorf("only %d re-noding routines found, expected >= 4", n)
	}
}

func runC14Count(c *Ctx) {
	n := 0
	fam := centroidFamily(c)
	seenF := map[*ssa.Function]bool{}
	for _, f := range fam {
		seenF[f] = true
	}
	// helpers split off the centroid routines (e.g. accumulatePoint(pt, &count, &sum)) belong to them
	for i := 0; i < len(fam); i++ {
		eachCall(fam[i], func(ci ssa.CallInstruction) {
			if h := staticCallee(ci); h != nil && isNewHelper(h) && len(h.Blocks) > 0 && !seenF[h] {
				seenF[h] = true
				fam = append(fam, h)
			}
		})
	}
	for _, f := range fam {
		fn := FuncName(f)
		eachInstr(f, func(in ssa.Instruction) {
			st, ok := in.(*ssa.Store)
			if !ok {
				return
			}
			bt, ok := st.Val.Type().Underlying().(*types.Basic)
			if !ok || bt.Info()&types.IsInteger == 0 {
				return
			}
			bo, ok := st.Val.(*ssa.BinOp)
			if !ok || bo.Op != token.ADD {
				return
			}
			ld, ok := bo.X.(*ssa.UnOp)
			if !ok || ld.Op != token.MUL || ld.X != st.Addr {
				return
			}
			// an integer accumulator x = x + …; is it a divisor of a float division somewhere (a count of points)?
			_, viaPointerParam := st.Addr.(*ssa.Parameter)
			if !cellUsedAsDivisor(st.Addr) && !(viaPointerParam && isNewHelper(rootFunc(f))) {
				return
			}
			n++
			k, isC := constInt(bo.Y)
			c.Check(isC && k == 1, st.Pos(), fn, "increment of the point count", "the count grows by 1 per point added", "the count that the sum is divided by grows by something other than 1 (e.g. a member's NumPoints(), which includes its EMPTY points): the average is taken over more points than were summed")
		})
	}
	if n < 1 {
		c.Triv(token.NoPos, "-", "scan", "no integer point count is divided by in the centroid routines")
	}
}

// cellUsedAsDivisor: the variable (local cell or captured variable) is loaded, converted to float and divided by — here or in the enclosing/enclosed functions
func cellUsedAsDivisor(addr ssa.Value) bool {
	var cells []ssa.Value
	cells = append(cells, addr)
	if fv, ok := addr.(*ssa.FreeVar); ok {
		fn := fv.Parent()
		if par := fn.Parent(); par != nil {
			for i, x := range fn.FreeVars {
				if x == fv {
					eachInstr(par, func(in ssa.Instruction) {
						if mc, ok := in.(*ssa.MakeClosure); ok && mc.Fn == ssa.Value(fn) && i < len(mc.Bindings) {
							cells = append(cells, mc.Bindings[i])
						}
					})
				}
			}
		}
	}
	for _, cell := range cells {
		if cell.Referrers() == nil {
			continue
		}
		for _, r := range *cell.Referrers() {
			ld, ok := r.(*ssa.UnOp)
			if !ok || ld.Op != token.MUL {
				continue
			}
			for _, r2 := range *ld.Referrers() {
				cv, ok := r2.(*ssa.Convert)
				if !ok {
					continue
				}
				for _, r3 := range *cv.Referrers() {
					if bo, ok := r3.(*ssa.BinOp); ok && bo.Op == token.QUO && bo.Y == ssa.Value(cv) {
						return true
					}
				}
			}
		}
	}
	return false
}

func runC12Center(c *Ctx) {
	f := c.P.Func("geom.(Envelope).Center")
	if f == nil {
		c.Errorf("anchor geom.(Envelope).Center does not resolve")
		return
	}
	inl := func(g *ssa.Function) bool { return pkgOf(g) == "geom" && g != f }
	problem, undec := "", ""
	models := 0
	type env struct{ x0, y0, x1, y1 float64 }
	cases := []env{{0, 0, 2, 4}, {1, 2, 1, 2}, {-3, -1, 5, 0}, {-1e308, -1e308, 1e308, 1e308}, {-1e308, 0, 1e308, 1}, {-4, -8, 4, 8}}
	for _, e := range cases {
		models++
		m := &Model{Num: map[string]float64{"$0.min.X": e.x0, "$0.min.Y": e.y0, "$0.max.X": e.x1, "$0.max.Y": e.y1}, Bool: map[string]bool{"$0.nonEmpty": true}, Missing: map[string]bool{}}
		it := &k4interp{p: c.P, m: m, mem: map[string]k4val{}, inline: inl}
		res, err := it.call(f, []k4val{{kind: 3, s: "$0"}}, nil)
		if err != nil || len(res) != 1 || res[0].kind != 3 {
			undec = fmt.Sprintf("%v %v %s", err, res, trunc(missingList(m)))
			break
		}
		rd := func(k string) (float64, bool) {
			for _, pre := range []string{".coords.XY", ".coords"} {
				v, e := it.lookup(res[0].s+pre+k, f64T)
				if e == nil && v.kind == 2 {
					return v.f, true
				}
			}
			return 0, false
		}
		x, ok1 := rd(".X")
		y, ok2 := rd(".Y")
		full, e3 := it.lookup(res[0].s+".full", boolT)
		if !ok1 || !ok2 || e3 != nil {
			undec = "cannot read the returned point: " + trunc(missingList(m))
			break
		}
		wx, wy := (e.x0+e.x1)/2, (e.y0+e.y1)/2
		if !full.b || x != wx || y != wy {
			problem = fmt.Sprintf("the centre of [%v,%v]x[%v,%v] is (%v %v non-empty=%v), expected (%v %v)", e.x0, e.x1, e.y0, e.y1, x, y, full.b, wx, wy)
			break
		}
	}
	if problem == "" && undec == "" {
		models++
		m := &Model{Num: map[string]float64{}, Bool: map[string]bool{"$0.nonEmpty": false}, Missing: map[string]bool{}}
		it := &k4interp{p: c.P, m: m, mem: map[string]k4val{}, inline: inl}
		res, err := it.call(f, []k4val{{kind: 3, s: "$0"}}, nil)
		if err != nil || len(res) != 1 {
			undec = fmt.Sprintf("%v %v", err, res)
		} else if res[0].s != "zero" {
			if full, e := it.lookup(res[0].s+".full", boolT); e != nil || full.b {
				problem = "the centre of the empty envelope is not the empty point"
			}
		}
	}
	reportK4(c, f, "centre = midpoint of the bounds", undec, problem, fmt.Sprintf("(min+max)/2 on both axes, finite for envelopes spanning more than MaxFloat64, empty for empty (%d models)", models))
}

// ---------------------------------------------------------------------------
// C19.onesided: a closeness test without the absolute value
// ---------------------------------------------------------------------------

func init() {
	register(&Rule{
		ID:    "C19.onesided",
		Props: []string{"C19", "C20"},
		Doc:   "a closeness test is two-sided: no floating-point difference a - b is compared with a small positive constant (`a - b < 1e-12`) without an absolute value in geom, rtree or carto — such a test also holds for every a < b, however far apart (e.g. standard parallels given in descending order are taken for coincident)",
		Floor: 0,
		Run:   runC19OneSided,
	})
}

func runC19OneSided(c *Ctx) {
	n := 0
	for _, f := range c.P.Funcs {
		if !c.P.InRepo(f) || len(f.Blocks) == 0 {
			continue
		}
		fn := FuncName(f)
		eachInstr(f, func(in ssa.Instruction) {
			bo, ok := in.(*ssa.BinOp)
			if !ok || !isFloat(bo.X.Type()) {
				return
			}
			var diff, k ssa.Value
			switch bo.Op {
			case token.LSS, token.LEQ:
				diff, k = bo.X, bo.Y
			case token.GTR, token.GEQ:
				diff, k = bo.Y, bo.X
			default:
				return
			}
			kc, ok := k.(*ssa.Const)
			if !ok {
				return
			}
			kv, ok := constantFloat(kc)
			if !ok || kv <= 0 || kv > 1e-3 {
				return
			}
			sub, ok := stripLoad(diff).(*ssa.BinOp)
			if !ok || sub.Op != token.SUB {
				return
			}
			n++
			c.Bad(bo.Pos(), fn, "one-sided closeness test", fmt.Sprintf("a difference is compared with the small constant %g without an absolute value: the test also holds whenever the first operand is smaller than the second, however far apart they are", kv))
		})
	}
	c.OK(token.NoPos, "-", "scan", fmt.Sprintf("no difference compared with a small positive constant without |.| (%d found)", n))
}

// ---------------------------------------------------------------------------
// C20.membreak: an accumulating member loop is not left by break
// ---------------------------------------------------------------------------

func init() {
	register(&Rule{
		ID:    "C20.membreak",
		Props: []string{"C20", "C02", "C15", "C14", "C12"},
		Doc:   "a loop that accumulates over the members of a geometry looks at all of them: in a member loop whose body appends to a list, updates a map or adds to a running total, no `break` leaves the loop on a condition about the current member (closed, empty, of some type) without having recorded anything — that is a `continue` written as `break`, and every member after it is dropped (a ring listed before the open lines of a MultiLineString hides their end points from Boundary). Breaks that follow an assignment of the found element (search loops) are not concerned",
		Floor: 10,
		Run:   runC20MemBreak,
	})
}

func runC20MemBreak(c *Ctx) {
	n := 0
	for _, f := range c.P.Funcs {
		if pkgOf(f) != "geom" || len(f.Blocks) == 0 || strings.Contains(c.P.File(f.Pos()), "dcel_debug.go") {
			continue
		}
		fn := FuncName(f)
		for _, h := range f.Blocks {
			if _, ok := loopOverMembers(h); !ok {
				continue
			}
			loop := naturalLoop(h)
			if loop == nil {
				continue
			}
			// does the body accumulate?
			acc := false
			for b := range loop {
				for _, in := range b.Instrs {
					switch x := in.(type) {
					case *ssa.MapUpdate:
						acc = true
					case *ssa.Call:
						if bi, ok := x.Call.Value.(*ssa.Builtin); ok && bi.Name() == "append" {
							acc = true
						}
					case *ssa.Store:
						if bo, ok := x.Val.(*ssa.BinOp); ok && bo.Op == token.ADD {
							if ld, ok := bo.X.(*ssa.UnOp); ok && ld.Op == token.MUL && ld.X == x.Addr {
								acc = true
							}
						}
					}
				}
			}
			if !acc {
				continue
			}
			n++
			bad := ""
			for _, e := range bodyExits(h, loop) {
				if returnAfter(e.to) != nil || endsInPanic(e.to) || inEnclosingLoop(f, h, e.to) {
					continue
				}
				ifi, ok := e.from.Instrs[len(e.from.Instrs)-1].(*ssa.If)
				if !ok {
					// an unconditional jump out of the loop from a body block: `…; break` after some work
					continue
				}
				// the breaking edge leaves straight from a test: nothing was recorded for this member on that edge
				if call, ok := ifi.Cond.(*ssa.Call); ok {
					if cal := staticCallee(call); cal != nil && cal.Signature.Recv() != nil && pkgOf(cal) == "geom" {
						bad = "left by a break at " + c.P.Pos(condPos(ifi)) + " on a test of the current member (" + cal.Name() + ")"
					}
				}
				if ex, ok := ifi.Cond.(*ssa.Extract); ok {
					if call, ok := ex.Tuple.(*ssa.Call); ok {
						if cal := staticCallee(call); cal != nil && cal.Signature.Recv() != nil && pkgOf(cal) == "geom" {
							bad = "left by a break at " + c.P.Pos(condPos(ifi)) + " on the flag of " + cal.Name() + "() of the current member"
						}
					}
				}
			}
			c.Check(bad == "", firstPos(h), fn, fmt.Sprintf("accumulating member loop #%d", loopOrdinal(f, h)), "never left by a bare break on a property of the current member", "a loop that accumulates over all members is "+bad+": the members after it are never accumulated (a `continue` was meant)")
		}
	}
	if n < 10 {
		c.Errorf("only %d accumulating member loops found, expected >= 10", n)
	}
}

// ---------------------------------------------------------------------------
// C03.seglines: the segment bookkeeping of LineString.IsSimple
// ---------------------------------------------------------------------------

func init() {
	register(&Rule{
		ID:    "C03.seglines",
		Props: []string{"C03"},
		Doc:   "the segment bookkeeping that LineString.IsSimple (and through it ring validity) relies on, interpreted on every sequence of up to 5 control points over 3 distinct locations (repeated points at every position): getLine(i) is the pair (point i-1, point i), usable iff i >= 1 and they differ; firstAndLastLines gives the first and last index i with point i != point i-1 (and false when all points coincide); previousLine / nextLine(i) give the nearest usable segment before / after segment i (and false when there is none)",
		Floor: 4,
		Run:   runC03SegLines,
	})
}

func runC03SegLines(c *Ctx) {
	fGet := c.P.Func("geom.getLine")
	fFL := c.P.Func("geom.firstAndLastLines")
	fPrev := c.P.Func("geom.previousLine")
	fNext := c.P.Func("geom.nextLine")
	if fGet == nil || fFL == nil || fPrev == nil || fNext == nil {
		c.Errorf("anchors getLine / firstAndLastLines / previousLine / nextLine do not resolve")
		return
	}
	inl := func(g *ssa.Function) bool {
		switch FuncName(g) {
		case "geom.(Sequence).Length", "geom.(Sequence).GetXY", "geom.(Sequence).Get", "geom.(CoordinatesType).Dimension", "geom.getLine":
			return true
		}
		return false
	}
	type res struct{ problem, undec string }
	out := map[*ssa.Function]*res{fGet: {}, fFL: {}, fPrev: {}, fNext: {}}
	models := 0
	mk := func(pts []int) *k4interp {
		m := &Model{Num: map[string]float64{"$0.ctype": 0}, Bool: map[string]bool{}, Missing: map[string]bool{}}
		it := &k4interp{p: c.P, m: m, mem: map[string]k4val{}, inline: inl}
		it.mem["$0.floats"] = k4val{kind: 8, s: "F", ln: 2 * len(pts), cp: 2 * len(pts)}
		for i, p := range pts {
			it.mem[fmt.Sprintf("F[%d]", 2*i)] = k4val{kind: 2, f: float64(p)}
			it.mem[fmt.Sprintf("F[%d]", 2*i+1)] = k4val{kind: 2, f: float64(10 * p)}
		}
		return it
	}
	var rec func(pts []int, n int)
	rec = func(pts []int, n int) {
		if len(pts) == n {
			models++
			usable := func(i int) bool { return i >= 1 && i < n && pts[i-1] != pts[i] }
			// getLine
			for i := 0; i < n && out[fGet].problem == "" && out[fGet].undec == ""; i++ {
				it := mk(pts)
				r, err := it.call(fGet, []k4val{{kind: 3, s: "$0"}, {kind: 2, f: float64(i)}}, nil)
				if err != nil || len(r) != 2 || r[1].kind != 1 {
					out[fGet].undec = fmt.Sprintf("%v %v", err, r)
					break
				}
				ax, e1 := it.lookup(r[0].s+".a.X", f64T)
				bx, e2 := it.lookup(r[0].s+".b.X", f64T)
				if e1 != nil || e2 != nil {
					out[fGet].undec = "cannot read the line returned"
					break
				}
				if i == 0 {
					if r[1].b {
						out[fGet].problem = fmt.Sprintf("points %v: getLine(0) is reported usable; segment i joins point i-1 to point i, so there is no segment 0", pts)
					}
					continue
				}
				if r[1].b != usable(i) || ax.f != float64(pts[i-1]) || bx.f != float64(pts[i]) {
					out[fGet].problem = fmt.Sprintf("points %v: getLine(%d) = (%v -> %v, usable=%v), expected (%d -> %d, usable=%v)", pts, i, ax.f, bx.f, r[1].b, pts[i-1], pts[i], usable(i))
				}
			}
			// firstAndLastLines
			if out[fFL].problem == "" && out[fFL].undec == "" {
				it := mk(pts)
				r, err := it.call(fFL, []k4val{{kind: 3, s: "$0"}}, nil)
				if err != nil || len(r) != 3 || r[2].kind != 1 {
					out[fFL].undec = fmt.Sprintf("%v %v", err, r)
				} else {
					first, last := -1, -1
					for i := 1; i < n; i++ {
						if pts[i] != pts[i-1] {
							if first < 0 {
								first = i
							}
							last = i
						}
					}
					wantOK := first >= 0
					if r[2].b != wantOK || (wantOK && (int(r[0].f) != first || int(r[1].f) != last)) {
						out[fFL].problem = fmt.Sprintf("points %v: firstAndLastLines = (%v, %v, %v), expected (%d, %d, %v)", pts, r[0].f, r[1].f, r[2].b, first, last, wantOK)
					}
				}
			}
			// previousLine / nextLine
			for i := 0; i < n; i++ {
				for _, f := range []*ssa.Function{fPrev, fNext} {
					if out[f].problem != "" || out[f].undec != "" {
						continue
					}
					it := mk(pts)
					r, err := it.call(f, []k4val{{kind: 3, s: "$0"}, {kind: 2, f: float64(i)}}, nil)
					if err != nil || len(r) != 2 || r[1].kind != 1 {
						out[f].undec = fmt.Sprintf("%v %v", err, r)
						continue
					}
					want := -1
					if f == fPrev {
						for j := i - 1; j >= 0; j-- {
							if usable(j) {
								want = j
								break
							}
						}
					} else {
						for j := i + 1; j < n; j++ {
							if usable(j) {
								want = j
								break
							}
						}
					}
					if r[1].b != (want >= 0) || (want >= 0 && int(r[0].f) != want) {
						out[f].problem = fmt.Sprintf("points %v: %s(%d) = (%v, %v), expected (%d, %v)", pts, f.Name(), i, r[0].f, r[1].b, want, want >= 0)
					}
				}
			}
			return
		}
		for p := 0; p < 3; p++ {
			rec(append(pts, p), n)
		}
	}
	for n := 0; n <= 5; n++ {
		rec(nil, n)
	}
	reportK4(c, fGet, "segment i = (point i-1, point i), usable iff distinct", out[fGet].undec, out[fGet].problem, fmt.Sprintf("on all %d sequences", models))
	reportK4(c, fFL, "first and last usable segment", out[fFL].undec, out[fFL].problem, fmt.Sprintf("on all %d sequences", models))
	reportK4(c, fPrev, "nearest usable segment before i", out[fPrev].undec, out[fPrev].problem, fmt.Sprintf("on all %d sequences", models))
	reportK4(c, fNext, "nearest usable segment after i", out[fNext].undec, out[fNext].problem, fmt.Sprintf("on all %d sequences", models))
}
