package main

import (
	"fmt"
	"math"
	"strings"

	"golang.org/x/tools/go/ssa"
)

func init() {
	register(&Rule{
		ID:    "C03.crossing",
		Props: []string{"C03", "C09", "C15"},
		Doc:   "point-in-ring by ray casting: (a) hasCrossing interpreted on every lattice configuration of a point and a non-degenerate segment: onLine iff the point lies on the closed segment; crossing iff the horizontal ray towards -x meets the segment under the half-open rule (lower.Y <= pt.Y < upper.Y and the segment's x at that height is < pt.X), so a ray through a vertex is counted exactly once; (b) relatePointToRing, interpreted with every combination of (usable, crossing, onLine) for 3 segments: boundary iff some usable segment has onLine, otherwise interior iff the number of usable crossing segments is odd; (c) the search callback of relatePointToPolygon stops with 'on boundary' iff onLine and otherwise counts the segment iff crossing, and the verdict after the search is boundary / odd -> interior / even -> exterior",
		Floor: 3,
		Run:   runC03Crossing,
	})
}

func runC03Crossing(c *Ctx) {
	// (a) hasCrossing
	keys := []string{"$0.X", "$0.Y", "$1.a.X", "$1.a.Y", "$1.b.X", "$1.b.Y"}
	runK4Spec(c, k4spec{rule: "C03.crossing", fn: "geom.hasCrossing", construct: "ray/segment crossing", num: keys, vals: []float64{0, 1, 2},
		inline: []string{"geom.orientation", "geom.(XY).Sub", "geom.(XY).Cross", "geom.(line).uncheckedEnvelope", "geom.(Envelope).Contains", "geom.fastMin", "geom.fastMax", "geom.newUncheckedEnvelope", "geom.(Envelope).IsEmpty", "geom.(Envelope).Min", "geom.(Envelope).Max", "geom.sortFloat64Pair", "geom.(XY).validate"},
		what:   "crossing: lower.Y <= pt.Y < upper.Y and the segment is strictly left of the point at that height; onLine: the point is on the closed segment",
		valid: func(m *Model) bool {
			return m.Num["$1.a.X"] != m.Num["$1.b.X"] || m.Num["$1.a.Y"] != m.Num["$1.b.Y"]
		},
		want: func(m *Model) []string {
			px, py := m.Num["$0.X"], m.Num["$0.Y"]
			ax, ay, bx, by := m.Num["$1.a.X"], m.Num["$1.a.Y"], m.Num["$1.b.X"], m.Num["$1.b.Y"]
			lx, ly, ux, uy := ax, ay, bx, by
			if ly > uy {
				lx, ly, ux, uy = bx, by, ax, ay
			}
			cross := (bx-ax)*(py-ay) - (by-ay)*(px-ax)
			inBox := px >= min2(ax, bx) && px <= max2(ax, bx) && py >= min2(ay, by) && py <= max2(ay, by)
			onLine := cross == 0 && inBox
			crossing := false
			if ly <= py && py < uy {
				xint := lx + (py-ly)*(ux-lx)/(uy-ly)
				crossing = xint < px
			}
			return []string{fmt.Sprint(crossing), fmt.Sprint(onLine)}
		}})

	// (b) relatePointToRing
	if f := c.P.Func("geom.relatePointToRing"); f == nil {
		c.Errorf("anchor geom.relatePointToRing does not resolve")
	} else {
		inl := func(g *ssa.Function) bool {
			switch FuncName(g) {
			case "geom.(LineString).Coordinates", "geom.(Sequence).Length", "geom.(CoordinatesType).Dimension":
				return true
			}
			return false
		}
		interior := lookupConst(c, "geom", "interior")
		boundary := lookupConst(c, "geom", "boundary")
		exterior := lookupConst(c, "geom", "exterior")
		problem, undec := "", ""
		models := 0
		for mask := 0; mask < 512 && problem == "" && undec == ""; mask++ {
			models++
			m := &Model{Num: map[string]float64{}, Bool: map[string]bool{}, Missing: map[string]bool{}}
			it := &k4interp{p: c.P, m: m, mem: map[string]k4val{}, inline: inl}
			it.mem["$1.seq.floats"] = k4val{kind: 8, s: "F", ln: 6, cp: 6}
			it.mem["$1.seq.ctype"] = k4val{kind: 2, f: 0}
			bit := func(i, k int) bool { return mask&(1<<uint(3*i+k)) != 0 }
			// the i-th getLine / hasCrossing calls are recognised by their index argument
			it.answer = func(key string, isBool bool) (k4val, bool) {
				if !isBool {
					return k4val{}, false
				}
				for i := 0; i < 3; i++ {
					gl := fmt.Sprintf("geom.getLine($1.seq,%d)", i)
					if key == gl+"#1" {
						return k4val{kind: 1, b: bit(i, 0)}, true
					}
					if strings.HasPrefix(key, "geom.hasCrossing($0,"+gl+"#0)") {
						if strings.HasSuffix(key, "#0") {
							return k4val{kind: 1, b: bit(i, 1)}, true
						}
						if strings.HasSuffix(key, "#1") {
							return k4val{kind: 1, b: bit(i, 2)}, true
						}
					}
				}
				return k4val{}, false
			}
			res, err := it.call(f, []k4val{{kind: 3, s: "$0"}, {kind: 3, s: "$1"}}, nil)
			if err != nil || len(res) != 1 || res[0].kind != 2 {
				undec = fmt.Sprintf("%v %v %s", err, res, missingList(m))
				break
			}
			want := exterior
			cnt := 0
			onB := false
			for i := 0; i < 3; i++ {
				if bit(i, 0) && bit(i, 2) {
					onB = true
				}
				if bit(i, 0) && bit(i, 1) {
					cnt++
				}
			}
			// the function returns at the FIRST usable on-line segment; crossings before it do not matter
			if onB {
				want = boundary
			} else if cnt%2 == 1 {
				want = interior
			}
			if int64(res[0].f) != want {
				problem = fmt.Sprintf("with (usable, crossing, onLine) = %s for the 3 segments the verdict is %v, expected %v (boundary=%d interior=%d exterior=%d)", triples(mask), res[0].f, want, boundary, interior, exterior)
			}
		}
		reportK4(c, f, "verdict from crossings", undec, problem, fmt.Sprintf("boundary iff a usable segment contains the point, else parity of the usable crossings, in all %d models", models))
	}

	// (c) relatePointToPolygon: callback and verdict
	f := c.P.Func("geom.relatePointToPolygon")
	if f == nil || len(f.AnonFuncs) != 1 {
		c.Errorf("anchor geom.relatePointToPolygon (with its search callback) does not resolve")
		return
	}
	cb := f.AnonFuncs[0]
	var boolCell, intCell = -1, -1
	for i, fv := range cb.FreeVars {
		switch {
		case isBoolT(deref(fv.Type())):
			boolCell = i
		case isNumeric(deref(fv.Type())) && !isFloat(deref(fv.Type())):
			intCell = i
		}
	}
	if boolCell < 0 || intCell < 0 {
		c.Errorf("relatePointToPolygon's callback does not capture a flag and a counter")
		return
	}
	problem, undec := "", ""
	for mask := 0; mask < 4 && problem == "" && undec == ""; mask++ {
		crossing, onLine := mask&1 != 0, mask&2 != 0
		m := &Model{Num: map[string]float64{}, Bool: map[string]bool{}, Missing: map[string]bool{}}
		it := &k4interp{p: c.P, m: m, mem: map[string]k4val{}}
		var fvs []k4val
		for i, fv := range cb.FreeVars {
			k := "cell:" + fv.Name()
			fvs = append(fvs, k4val{kind: 3, s: k})
			if i == boolCell {
				it.mem[k] = k4val{kind: 1, b: false}
			}
			if i == intCell {
				it.mem[k] = k4val{kind: 2, f: 5}
			}
		}
		it.answer = func(key string, isBool bool) (k4val, bool) {
			if isBool && strings.HasPrefix(key, "geom.hasCrossing(") {
				if strings.HasSuffix(key, "#0") {
					return k4val{kind: 1, b: crossing}, true
				}
				if strings.HasSuffix(key, "#1") {
					return k4val{kind: 1, b: onLine}, true
				}
			}
			return k4val{}, false
		}
		res, err := it.call(cb, []k4val{{kind: 2, f: 0}}, fvs)
		if err != nil || len(res) != 1 {
			undec = fmt.Sprintf("%v %v %s", err, res, missingList(m))
			break
		}
		flag := it.mem["cell:"+cb.FreeVars[boolCell].Name()]
		cnt := it.mem["cell:"+cb.FreeVars[intCell].Name()]
		stopped := res[0].String() != "nil" && res[0].String() != "zero"
		wantCnt := 5.0
		if !onLine && crossing {
			wantCnt = 6
		}
		if flag.b != onLine || stopped != onLine || cnt.f != wantCnt {
			problem = fmt.Sprintf("for a segment with crossing=%v onLine=%v the callback leaves onBoundary=%v, count %+v (from 5), returns %s; expected onBoundary=%v, count %v, stop iff on the line", crossing, onLine, flag.b, cnt.f, res[0].String(), onLine, wantCnt)
		}
	}
	// the verdict after the search: the effect of the callbacks is modelled by
	// setting the captured cells when the (uninterpreted) RangeSearch call is met
	if problem == "" && undec == "" {
		interior := lookupConst(c, "geom", "interior")
		boundary := lookupConst(c, "geom", "boundary")
		exterior := lookupConst(c, "geom", "exterior")
		for _, tc := range []struct {
			on  bool
			cnt float64
		}{{false, 0}, {false, 1}, {false, 2}, {false, 3}, {true, 0}, {true, 1}, {true, 2}} {
			m := &Model{Num: map[string]float64{"$0.X": 1, "$0.Y": 1}, Bool: map[string]bool{}, Missing: map[string]bool{}}
			it := &k4interp{p: c.P, m: m, mem: map[string]k4val{}}
			seen := false
			it.onOpaque = func(name string, args []k4val) {
				for _, a := range args {
					if a.kind == 7 && a.v == ssa.Value(cb) && a.s != "" {
						cells := strings.Split(a.s, "\x00")
						if boolCell < len(cells) && intCell < len(cells) {
							it.mem[cells[boolCell]] = k4val{kind: 1, b: tc.on}
							it.mem[cells[intCell]] = k4val{kind: 2, f: tc.cnt}
							seen = true
						}
					}
				}
			}
			res, err := it.call(f, []k4val{{kind: 3, s: "$0"}, {kind: 3, s: "$1"}}, nil)
			if err != nil || len(res) != 1 || res[0].kind != 2 || !seen {
				undec = fmt.Sprintf("verdict: %v %v %s (search call seen: %v)", err, res, missingList(m), seen)
				break
			}
			want := exterior
			if tc.on {
				want = boundary
			} else if int(tc.cnt)%2 == 1 {
				want = interior
			}
			if int64(res[0].f) != want {
				problem = fmt.Sprintf("after a search that left onBoundary=%v and %v crossings the verdict is %v, expected %v (boundary=%d interior=%d exterior=%d)", tc.on, tc.cnt, res[0].f, want, boundary, interior, exterior)
				break
			}
		}
	}
	reportK4(c, cb, "search callback", undec, problem, "flags the boundary and stops iff the point is on the segment, otherwise counts the segment iff it crosses (4 models); verdict boundary / odd -> interior / even -> exterior (7 models)")
}

func min2(a, b float64) float64 {
	if a < b {
		return a
	}
	return b
}

func max2(a, b float64) float64 {
	if a > b {
		return a
	}
	return b
}

func triples(mask int) string {
	var p []string
	for i := 0; i < 3; i++ {
		p = append(p, fmt.Sprintf("(%v,%v,%v)", mask&(1<<uint(3*i)) != 0, mask&(1<<uint(3*i+1)) != 0, mask&(1<<uint(3*i+2)) != 0))
	}
	return strings.Join(p, " ")
}

func init() {
	register(&Rule{
		ID:    "C01.shape",
		Props: []string{"C01", "C20"},
		Doc:   "canonical shape of an overlay result: extractGeometry interpreted for every combination of 0/1/2 extracted polygons, line strings and points: exactly one kind with one element -> that element; exactly one kind -> its Multi type over the whole list; otherwise (including nothing) a GeometryCollection of all polygons, then all line strings, then all points, each once",
		Floor: 1,
		Run:   runC01Shape,
	})
}

func runC01Shape(c *Ctx) {
	f := c.P.Func("geom.(*doublyConnectedEdgeList).extractGeometry")
	if f == nil {
		c.Errorf("anchor extractGeometry does not resolve")
		return
	}
	kinds := []struct{ fn, multi, elem string }{
		{"extractPolygons", "geom.NewMultiPolygon", "geom.(Polygon).AsGeometry"},
		{"extractLineStrings", "geom.NewMultiLineString", "geom.(LineString).AsGeometry"},
		{"extractPoints", "geom.NewMultiPoint", "geom.(Point).AsGeometry"},
	}
	problem, undec := "", ""
	models := 0
	for mask := 0; mask < 27 && problem == "" && undec == ""; mask++ {
		n := [3]int{mask % 3, (mask / 3) % 3, mask / 9}
		models++
		m := &Model{Num: map[string]float64{}, Bool: map[string]bool{}, Missing: map[string]bool{}}
		it := &k4interp{p: c.P, m: m, mem: map[string]k4val{}}
		var srcKey [3]string
		it.answer = func(key string, isBool bool) (k4val, bool) {
			if isBool {
				// the error of extractPolygons is nil
				if strings.Contains(key, "extractPolygons(") && strings.Contains(key, "nil") {
					return k4val{kind: 1, b: strings.Contains(key, "==nil")}, true
				}
				return k4val{}, false
			}
			for i, k := range kinds {
				if strings.HasPrefix(key, "len(") && strings.Contains(key, "."+k.fn+"(") {
					srcKey[i] = strings.TrimSuffix(strings.TrimPrefix(key, "len("), ")")
					return k4val{kind: 2, f: float64(n[i])}, true
				}
			}
			return k4val{}, false
		}
		res, err := it.call(f, []k4val{{kind: 3, s: "$0"}, {kind: 3, s: "$1"}}, nil)
		if err != nil || len(res) != 2 {
			undec = fmt.Sprintf("%v %v %s", err, res, missingList(m))
			break
		}
		got := res[0].String()
		nonzero, which := 0, -1
		for i := range n {
			if n[i] > 0 {
				nonzero++
				which = i
			}
		}
		desc := fmt.Sprintf("%d polygons, %d line strings, %d points", n[0], n[1], n[2])
		switch {
		case nonzero == 1 && n[which] == 1:
			want := kinds[which].elem + "(" + srcKey[which] + "[0])"
			if got != want {
				problem = fmt.Sprintf("for %s the result is %s, expected the single element %s", desc, trunc(got), trunc(want))
			}
		case nonzero == 1:
			wantPrefix := "geom.(" + strings.TrimPrefix(kinds[which].multi, "geom.New") + ").AsGeometry(" + kinds[which].multi + "(" + srcKey[which]
			if !strings.HasPrefix(got, wantPrefix) {
				problem = fmt.Sprintf("for %s the result is %s, expected %s over the whole list", desc, trunc(got), kinds[which].multi)
			}
		default:
			pre := "geom.(GeometryCollection).AsGeometry(geom.NewGeometryCollection("
			if !strings.HasPrefix(got, pre) {
				problem = fmt.Sprintf("for %s the result is %s, expected a GeometryCollection", desc, trunc(got))
				break
			}
			arg := strings.TrimSuffix(strings.TrimPrefix(got, pre), "))")
			var want []string
			for i, k := range kinds {
				for j := 0; j < n[i]; j++ {
					want = append(want, fmt.Sprintf("%s(%s[%d])", k.elem, srcKey[i], j))
				}
			}
			var have []string
			if lb := strings.Index(arg, "["); lb > 0 {
				base := arg[:lb]
				var lo, hi int
				fmt.Sscanf(arg[lb:], "[%d:%d]", &lo, &hi)
				for j := lo; j < hi; j++ {
					v, err := it.lookup(fmt.Sprintf("%s[%d]", base, j), nil0)
					if err != nil {
						break
					}
					have = append(have, v.String())
				}
			}
			if strings.Join(have, " ") != strings.Join(want, " ") {
				problem = fmt.Sprintf("for %s the collection holds [%s], expected [%s] (polygons, then line strings, then points)", desc, trunc(strings.Join(have, " ")), trunc(strings.Join(want, " ")))
			}
		}
	}
	reportK4(c, f, "shape of the extracted geometry", undec, problem, fmt.Sprintf("single element / Multi type / ordered GeometryCollection as specified, in all %d combinations of 0..2 polygons, line strings and points", models))
}

func init() {
	register(&Rule{
		ID:    "C01.pipeline",
		Props: []string{"C01", "C02"},
		Doc:   "construction pipeline of the overlay: newDCELFromGeometries interpreted with every stage opaque performs, in this order and each exactly once: createGhosts(a,b); reNodeGeometries(a,b,ghosts); findInteractionPoints over the re-noded a, b and ghosts; addVertices; addGhosts(re-noded ghosts); addGeometry(re-noded a, operandA); addGeometry(re-noded b, operandB); fixVertices; assignFaces; populateInSetLabels — the operands are not swapped and nothing uses a geometry from before re-noding",
		Floor: 1,
		Run:   runC01Pipeline,
	})
}

func runC01Pipeline(c *Ctx) {
	f := c.P.Func("geom.newDCELFromGeometries")
	if f == nil {
		c.Errorf("anchor geom.newDCELFromGeometries does not resolve")
		return
	}
	m := &Model{Num: map[string]float64{}, Bool: map[string]bool{}, Missing: map[string]bool{}}
	it := &k4interp{p: c.P, m: m, mem: map[string]k4val{}}
	type stage struct {
		name string
		args []string
	}
	var got []stage
	it.onOpaque = func(name string, args []k4val) {
		var as []string
		for _, a := range args {
			as = append(as, a.String())
		}
		got = append(got, stage{name, as})
	}
	_, err := it.call(f, []k4val{{kind: 3, s: "$0"}, {kind: 3, s: "$1"}}, nil)
	if err != nil {
		c.Undecided(f.Pos(), FuncName(f), "stage order", fmt.Sprintf("cannot interpret: %v %s", err, missingList(m)))
		return
	}
	opA := lookupConst(c, "geom", "operandA")
	opB := lookupConst(c, "geom", "operandB")
	rn := "geom.reNodeGeometries($0,$1,geom.createGhosts($0,$1))"
	want := []struct {
		name string
		args map[int]string // position -> required argument rendering
	}{
		{"geom.createGhosts", map[int]string{0: "$0", 1: "$1"}},
		{"geom.reNodeGeometries", map[int]string{0: "$0", 1: "$1", 2: "geom.createGhosts($0,$1)"}},
		{"geom.(MultiLineString).AsGeometry", map[int]string{0: rn + "#2"}},
		{"geom.findInteractionPoints", nil},
		{"geom.newDCEL", nil},
		{"geom.(*doublyConnectedEdgeList).addVertices", nil},
		{"geom.(*doublyConnectedEdgeList).addGhosts", map[int]string{1: rn + "#2"}},
		{"geom.(*doublyConnectedEdgeList).addGeometry", map[int]string{1: rn + "#0", 2: fmt.Sprint(opA)}},
		{"geom.(*doublyConnectedEdgeList).addGeometry", map[int]string{1: rn + "#1", 2: fmt.Sprint(opB)}},
		{"geom.(*doublyConnectedEdgeList).fixVertices", nil},
		{"geom.(*doublyConnectedEdgeList).assignFaces", nil},
		{"geom.(*doublyConnectedEdgeList).populateInSetLabels", nil},
	}
	var names []string
	for _, g := range got {
		names = append(names, strings.TrimPrefix(g.name, "geom."))
	}
	problem := ""
	if len(got) != len(want) {
		problem = fmt.Sprintf("the pipeline runs %d stages [%s], expected %d", len(got), strings.Join(names, " → "), len(want))
	} else {
		for i, w := range want {
			if got[i].name != w.name {
				problem = fmt.Sprintf("stage %d is %s, expected %s (sequence: %s)", i+1, got[i].name, w.name, strings.Join(names, " → "))
				break
			}
			for pos, a := range w.args {
				if pos >= len(got[i].args) || got[i].args[pos] != a {
					have := "?"
					if pos < len(got[i].args) {
						have = got[i].args[pos]
					}
					problem = fmt.Sprintf("stage %s receives %s as argument %d, expected %s", w.name, trunc(have), pos, a)
				}
			}
			if problem != "" {
				break
			}
		}
	}
	if problem == "" {
		// the interaction points are computed from the re-noded inputs
		for _, g := range got {
			if g.name == "geom.findInteractionPoints" {
				lst := ""
				if len(g.args) == 1 && g.args[0] != "" {
					if lb := strings.Index(g.args[0], "["); lb > 0 {
						var parts []string
						for j := 0; j < 3; j++ {
							v, err := it.lookup(fmt.Sprintf("%s[%d]", g.args[0][:lb], j), nil0)
							if err == nil {
								parts = append(parts, v.String())
							}
						}
						lst = strings.Join(parts, " ")
					}
				}
				wantL := rn + "#0 " + rn + "#1 geom.(MultiLineString).AsGeometry(" + rn + "#2)"
				if lst != wantL {
					problem = fmt.Sprintf("interaction points are searched in [%s], expected the re-noded operands and ghosts [%s]", trunc(lst), wantL)
				}
			}
		}
	}
	c.Check(problem == "", f.Pos(), FuncName(f), "stage order", "ghosts → re-noding → interaction points → vertices → ghosts → A → B → fix vertices → faces → labels, each once, on the re-noded geometries", problem)
}

func init() {
	register(&Rule{
		ID:    "C04.order",
		Props: []string{"C04"},
		Doc:   "byte-order symmetry of WKB: (a) every fixed-width decode in the WKB parser picks binary.BigEndian exactly under `byte-order mark == 0` and binary.LittleEndian otherwise; (b) parseByteOrder sets the 'native order' flag to (nativeOrder == BigEndian) under mark 0 and (nativeOrder == LittleEndian) under mark 1 and rejects every other mark; (c) the raw (unswapped) reinterpretation of coordinate bytes is taken only when that flag is set, the other path flips every 8-byte group; (d) the marshaller writes every fixed-width integer through nativeOrder (no hard-wired byte order) and announces mark 1 iff nativeOrder is little-endian",
		Floor: 8,
		Run:   runC04Order,
	})
}

func runC04Order(c *Ctx) {
	// helper: does a guard set say "p.bo == 0" with the given truth?
	boIsZero := func(gs []Guard) (known bool, zero bool) {
		for _, g := range gs {
			bo, ok := g.Cond.(*ssa.BinOp)
			if !ok {
				continue
			}
			k, isC := constInt(bo.Y)
			if !isC {
				continue
			}
			s, _ := accessPath(bo.X)
			if !strings.HasSuffix(s, ".bo") && !strings.HasSuffix(s, "readByte(p)#0") && !strings.Contains(s, "readByte") {
				continue
			}
			switch {
			case bo.Op.String() == "==" && k == 0:
				return true, g.Truth
			case bo.Op.String() == "!=" && k == 0:
				return true, !g.Truth
			case bo.Op.String() == "==" && k == 1 && g.Truth:
				return true, false
			}
		}
		return false, false
	}
	nDecode := 0
	for _, f := range c.P.Funcs {
		if pkgOf(f) != "geom" || !strings.Contains(FuncName(f), "wkbParser") {
			continue
		}
		fn := FuncName(f)
		eachCall(f, func(ci ssa.CallInstruction) {
			n := calleeName(ci)
			big := strings.HasPrefix(n, "(encoding/binary.bigEndian).Uint")
			little := strings.HasPrefix(n, "(encoding/binary.littleEndian).Uint")
			if !big && !little {
				return
			}
			nDecode++
			known, zero := boIsZero(guardsAt(ci))
			construct := "decode " + strings.TrimPrefix(n, "(encoding/binary.")
			switch {
			case !known:
				c.Bad(ci.Pos(), fn, construct, "a fixed-width value is decoded with a hard-wired byte order, not selected by the stream's byte-order mark")
			case big == zero:
				c.OK(ci.Pos(), fn, construct, fmt.Sprintf("taken under mark==0 is %v", zero))
			default:
				c.Bad(ci.Pos(), fn, construct, fmt.Sprintf("byte order inverted: this decoder runs when (mark == 0) is %v; mark 0 means big-endian (XDR), 1 little-endian (NDR)", zero))
			}
		})
	}
	if nDecode < 2 {
		c.Errorf("only %d fixed-width decodes found in the WKB parser, expected >= 2", nDecode)
	}
	// a float64 is one 8-byte unit of the stream: the bits handed to math.Float64frombits come straight from a
	// 64-bit decode under the byte-order mark — never from two 32-bit words put together (their order would have
	// to follow the byte order too)
	nBits := 0
	for _, f := range c.P.Funcs {
		if pkgOf(f) != "geom" || !strings.Contains(FuncName(f), "wkbParser") {
			continue
		}
		fn := FuncName(f)
		eachCall(f, func(ci ssa.CallInstruction) {
			if calleeName(ci) != "math.Float64frombits" {
				return
			}
			nBits++
			var direct func(v ssa.Value, d int) bool
			direct = func(v ssa.Value, d int) bool {
				if d > 4 {
					return false
				}
				switch x := v.(type) {
				case *ssa.Phi:
					for _, e := range x.Edges {
						if !direct(e, d+1) {
							return false
						}
					}
					return len(x.Edges) > 0
				case *ssa.Call:
					n := calleeName(x)
					if strings.HasSuffix(n, "Endian).Uint64") {
						return true
					}
					// through a binary.ByteOrder value chosen by the mark
					if x.Call.IsInvoke() && x.Call.Method.Name() == "Uint64" && strings.HasSuffix(x.Call.Value.Type().String(), "encoding/binary.ByteOrder") {
						return true
					}
					return false
				}
				return false
			}
			c.Check(direct(ci.Common().Args[0], 0), ci.Pos(), fn, "float64 from one 64-bit decode", "the bits come straight from bigEndian/littleEndian.Uint64", "the bits of a float64 are assembled from smaller pieces instead of one 64-bit decode under the byte-order mark: the order of the pieces is right for one byte order only")
		})
	}
	if nBits < 1 {
		c.Errorf("no math.Float64frombits in the WKB parser: how ordinates are decoded is unknown to this rule")
	}

	// (b) parseByteOrder, decided per value of the mark: the edges of the
	// comparisons of the mark with constants are pruned for mark = 0, 1, 2 and the
	// flag stores / returns that remain reachable are inspected
	// by interpretation of the function that stores the parser's native-order flag (parseByteOrder, or
	// the function it was inlined into): for a first byte m and either host order, mark 0 sets the flag to
	// (host is big-endian), mark 1 to (host is little-endian), and any other mark is an error
	{
		var f *ssa.Function
		for _, g := range c.P.methodsOf("geom", "wkbParser") {
			eachInstr(g, func(in ssa.Instruction) {
				if st, ok := in.(*ssa.Store); ok {
					if fa, ok := st.Addr.(*ssa.FieldAddr); ok {
						if tn, fl := fieldOfAddr(fa); tn == "wkbParser" && fl == "no" {
							if f == nil || g.Name() == "parseByteOrder" {
								f = g
							}
						}
					}
				}
			})
		}
		if f == nil {
			c.Errorf("no method of wkbParser stores the native-order flag (field no)")
		} else {
			fn := FuncName(f)
			for _, mark := range []int64{0, 1, 2} {
				construct := fmt.Sprintf("byte-order mark %d", mark)
				if mark == 2 {
					construct = "any other byte-order mark"
				}
				problem, undec := "", ""
				marks := []float64{float64(mark)}
				if mark == 2 {
					marks = []float64{2, 255}
				}
				for _, mv := range marks {
					for _, hostBig := range []bool{false, true} {
						m := &Model{Num: map[string]float64{}, Bool: map[string]bool{}, Missing: map[string]bool{}}
						it := &k4interp{p: c.P, m: m, mem: map[string]k4val{}, inline: func(g *ssa.Function) bool { return g.Name() == "readByte" || g.Name() == "parseByteOrder" }}
						it.mem["$0.body"] = k4val{kind: 8, s: "B", ln: 1, cp: 1}
						it.mem["B[0]"] = k4val{kind: 2, f: mv}
						it.answer = func(key string, isBool bool) (k4val, bool) {
							if !isBool || !strings.Contains(key, "nativeOrder") {
								// everything after the byte-order mark succeeds (only consulted when the mark is read inside a larger function)
								if isBool && strings.HasSuffix(key, "!=nil)") {
									return k4val{kind: 1, b: false}, true
								}
								if isBool && strings.HasSuffix(key, "==nil)") {
									return k4val{kind: 1, b: true}, true
								}
								return k4val{}, false
							}
							eq := strings.Contains(key, "==")
							switch {
							case strings.Contains(key, "BigEndian"):
								return k4val{kind: 1, b: hostBig == eq}, true
							case strings.Contains(key, "LittleEndian"):
								return k4val{kind: 1, b: (!hostBig) == eq}, true
							}
							return k4val{}, false
						}
						args := []k4val{{kind: 3, s: "$0"}}
						for range f.Params[1:] {
							args = append(args, k4val{kind: 3, s: "$x"})
						}
						res, err := it.call(f, args, nil)
						if err != nil || len(res) < 1 {
							undec = fmt.Sprintf("mark %v: %v %s", mv, err, missingList(m))
							break
						}
						errTerm := res[len(res)-1].String()
						failed := errTerm != "nil"
						flag, hasFlag := it.mem["$0.no"]
						switch {
						case mark == 2 && !failed:
							problem = fmt.Sprintf("parseByteOrder succeeds for the byte-order mark %v (only 0 and 1 are valid)", mv)
						case mark != 2 && failed && f.Name() == "parseByteOrder":
							problem = "a valid byte-order mark is rejected"
						case mark != 2 && (!hasFlag || flag.kind != 1 || flag.b != (hostBig == (mark == 0))):
							problem = fmt.Sprintf("under mark %d on a %s host the native-order flag is %s, expected %v (nativeOrder == binary.%s): coordinate bytes of a non-native stream would be reinterpreted without swapping", mark, map[bool]string{true: "big-endian", false: "little-endian"}[hostBig], flag, hostBig == (mark == 0), map[int64]string{0: "BigEndian", 1: "LittleEndian"}[mark])
						}
					}
					if undec != "" {
						break
					}
				}
				switch {
				case undec != "":
					c.Undecided(f.Pos(), fn, construct, "cannot interpret: "+undec)
				case problem != "":
					c.Bad(f.Pos(), fn, construct, problem)
				case mark == 2:
					c.OK(f.Pos(), fn, construct, "rejected")
				default:
					c.OK(f.Pos(), fn, construct, "accepted with native-order flag = (nativeOrder == binary."+map[int64]string{0: "BigEndian", 1: "LittleEndian"}[mark]+") on either host")
				}
			}
		}
	}

	// (c) raw reinterpretation only under the flag
	nRaw := 0
	for _, f := range c.P.Funcs {
		if pkgOf(f) != "geom" || !strings.Contains(FuncName(f), "wkbParser") {
			continue
		}
		fn := FuncName(f)
		for _, call := range callsTo(f, "geom.flipEndianessStride8") {
			nRaw++
			flagFalse := false
			for _, g := range guardsAt(call) {
				s, _ := accessPath(g.Cond)
				if strings.HasSuffix(s, ".no") && !g.Truth {
					flagFalse = true
				}
			}
			c.Check(flagFalse, call.Pos(), fn, "byte swap of coordinate data", "performed exactly when the stream is not in native order", "the 8-byte groups are swapped on a path that is not `native-order flag is false`: native-order input would be corrupted, or foreign-order input left unswapped")
		}
	}
	if nRaw < 1 {
		c.Errorf("no flipEndianessStride8 call found in the WKB parser")
	}

	// (d) marshaller
	nPut := 0
	for _, f := range c.P.Funcs {
		if pkgOf(f) != "geom" || !strings.Contains(FuncName(f), "wkbMarshaler") {
			continue
		}
		fn := FuncName(f)
		eachCall(f, func(ci ssa.CallInstruction) {
			cc := ci.Common()
			n := calleeName(ci)
			if cc.IsInvoke() && strings.HasPrefix(cc.Method.Name(), "Put") {
				nPut++
				s, _ := accessPath(cc.Value)
				c.Check(strings.Contains(s, "nativeOrder"), ci.Pos(), fn, "encode "+cc.Method.Name(), "through nativeOrder", "fixed-width value written through "+s+" instead of nativeOrder")
				return
			}
			if strings.HasPrefix(n, "(encoding/binary.") && strings.Contains(n, ").Put") {
				nPut++
				c.Bad(ci.Pos(), fn, "encode "+n, "hard-wired byte order in the marshaller: the byte-order mark announces nativeOrder")
			}
		})
	}
	if nPut < 1 {
		c.Errorf("only %d fixed-width encodes found in the WKB marshaller (today 3)", nPut)
	}
	if f := c.P.Func("geom.(*wkbMarshaler).writeByteOrder"); f == nil {
		c.Errorf("anchor writeByteOrder does not resolve")
	} else {
		// the appended constant 1 must be under nativeOrder == LittleEndian
		okAll, seen := true, 0
		eachCall(f, func(ci ssa.CallInstruction) {
			if b, ok := ci.Common().Value.(*ssa.Builtin); !ok || b.Name() != "append" {
				return
			}
			seen++
			// which constant is appended: look through the slice literal
			var val int64 = -1
			if sl, ok := ci.Common().Args[1].(*ssa.Slice); ok {
				if al, ok := sl.X.(*ssa.Alloc); ok {
					for _, r := range *al.Referrers() {
						if ia, ok := r.(*ssa.IndexAddr); ok {
							for _, rr := range *ia.Referrers() {
								if st, ok := rr.(*ssa.Store); ok {
									if k, isC := constInt(st.Val); isC {
										val = k
									}
								}
							}
						}
					}
				}
			}
			little, known := false, false
			for _, g := range guardsAt(ci) {
				if bo, ok := g.Cond.(*ssa.BinOp); ok && bo.Op.String() == "==" {
					for _, side := range []ssa.Value{bo.X, bo.Y} {
						if mi, ok := side.(*ssa.MakeInterface); ok {
							if u, ok := mi.X.(*ssa.UnOp); ok {
								if gl, ok := u.X.(*ssa.Global); ok {
									known = true
									little = (gl.Name() == "LittleEndian") == g.Truth
								}
							}
						}
					}
				}
			}
			if !known || (val == 1) != little || (val != 0 && val != 1) {
				okAll = false
			}
		})
		c.Check(okAll && seen == 2, f.Pos(), FuncName(f), "byte-order mark written", "1 iff nativeOrder is little-endian, else 0", "the mark written does not announce nativeOrder (1 = little-endian, 0 = big-endian)")
	}
}

func init() {
	register(&Rule{
		ID:    "C07.delta",
		Props: []string{"C07"},
		Doc:   "coordinate differencing of TWKB: (a) writePointArray interpreted on 3 points x 2 dimensions with scale 10, every combination of three ordinate values and two starting reference points: the varints emitted are round(v*scale) minus the previous value of the same dimension (the reference point for the first point), the reference point ends at the last point's rounded ordinates, the bounding box is the min/max of the rounded ordinates and becomes valid; (b) parsePointArray interpreted with every sequence of deltas: ordinate k of point i is (reference + sum of the deltas of dimension k so far)/scale and the reference point ends at the last point — writer and parser are inverse on the rounded grid",
		Floor: 2,
		Run:   runC07Delta,
	})
}

func runC07Delta(c *Ctx) {
	if f := c.P.Func("geom.(*twkbWriter).writePointArray"); f == nil {
		c.Errorf("anchor writePointArray does not resolve")
	} else {
		problem, undec := "", ""
		models := 0
		vals := []float64{-0.26, 0.24, 1.26}
		for _, ref := range [][2]float64{{0, 0}, {3, -4}} {
			for mask := 0; mask < 729 && problem == "" && undec == ""; mask++ {
				models++
				var co [6]float64
				mm := mask
				for i := range co {
					co[i] = vals[mm%3]
					mm /= 3
				}
				m := &Model{Num: map[string]float64{}, Bool: map[string]bool{}, Missing: map[string]bool{}}
				it := &k4interp{p: c.P, m: m, mem: map[string]k4val{}}
				it.mem["$0.dimensions"] = k4val{kind: 2, f: 2}
				it.mem["$0.bboxValid"] = k4val{kind: 1, b: false}
				for d := 0; d < 2; d++ {
					it.mem[fmt.Sprintf("$0.scalings[%d]", d)] = k4val{kind: 2, f: 10}
					it.mem[fmt.Sprintf("$0.refpoint[%d]", d)] = k4val{kind: 2, f: ref[d]}
					it.mem[fmt.Sprintf("$0.bboxMin[%d]", d)] = k4val{kind: 2, f: 0}
					it.mem[fmt.Sprintf("$0.bboxMax[%d]", d)] = k4val{kind: 2, f: 0}
				}
				for i := range co {
					it.mem[fmt.Sprintf("CO[%d]", i)] = k4val{kind: 2, f: co[i]}
				}
				var deltas []float64
				it.onOpaque = func(name string, args []k4val) {
					if name == "encoding/binary.PutVarint" && len(args) == 2 && args[1].kind == 2 {
						deltas = append(deltas, args[1].f)
					}
				}
				it.answer = func(key string, isBool bool) (k4val, bool) {
					if !isBool && strings.HasPrefix(key, "encoding/binary.PutVarint(") {
						return k4val{kind: 2, f: 1}, true
					}
					return k4val{}, false
				}
				_, err := it.call(f, []k4val{{kind: 3, s: "$0"}, {kind: 2, f: 3}, {kind: 8, s: "CO", ln: 6, cp: 6}}, nil)
				if err != nil {
					undec = fmt.Sprintf("%v %s", err, missingList(m))
					break
				}
				r := func(v float64) float64 { return math.Round(v * 10) }
				want := []float64{r(co[0]) - ref[0], r(co[1]) - ref[1], r(co[2]) - r(co[0]), r(co[3]) - r(co[1]), r(co[4]) - r(co[2]), r(co[5]) - r(co[3])}
				if fmt.Sprint(deltas) != fmt.Sprint(want) {
					problem = fmt.Sprintf("for points %v, scale 10, reference %v the varints written are %v, expected %v", co, ref, deltas, want)
					break
				}
				for d := 0; d < 2; d++ {
					get := func(k string) float64 { v, _ := it.lookup(fmt.Sprintf("$0.%s[%d]", k, d), nil0); return v.f }
					if get("refpoint") != r(co[4+d]) {
						problem = fmt.Sprintf("after writing %v the reference point of dimension %d is %v, expected the last point's %v", co, d, get("refpoint"), r(co[4+d]))
					}
					lo := math.Min(r(co[d]), math.Min(r(co[2+d]), r(co[4+d])))
					hi := math.Max(r(co[d]), math.Max(r(co[2+d]), r(co[4+d])))
					if get("bboxMin") != lo || get("bboxMax") != hi {
						problem = fmt.Sprintf("bounding box of dimension %d after %v is [%v,%v], expected [%v,%v]", d, co, get("bboxMin"), get("bboxMax"), lo, hi)
					}
				}
				if v, _ := it.lookup("$0.bboxValid", boolT); !v.b && problem == "" {
					problem = "the bounding box is not marked valid after points were written"
				}
			}
		}
		reportK4(c, f, "delta encoding", undec, problem, fmt.Sprintf("deltas against the running reference point, rounded to the grid, bbox = min/max, in all %d models", models))
	}

	if f := c.P.Func("geom.(*twkbParser).parsePointArray"); f == nil {
		c.Errorf("anchor parsePointArray does not resolve")
	} else {
		problem, undec := "", ""
		models := 0
		dv := []float64{-3, 0, 5}
		for _, cfg := range []struct {
			ref   [2]float64
			scale float64
		}{{[2]float64{0, 0}, 10}, {[2]float64{3, -4}, 10}, {[2]float64{0, 0}, 1e-5}, {[2]float64{3, -4}, 1e-5}} {
			ref, scale := cfg.ref, cfg.scale
			for mask := 0; mask < 81 && problem == "" && undec == ""; mask++ {
				models++
				var de [4]float64
				mm := mask
				for i := range de {
					de[i] = dv[mm%3]
					mm /= 3
				}
				m := &Model{Num: map[string]float64{}, Bool: map[string]bool{}, Missing: map[string]bool{}}
				it := &k4interp{p: c.P, m: m, mem: map[string]k4val{}, inline: func(g *ssa.Function) bool { return FuncName(g) == "geom.(*twkbParser).unscale" }}
				it.mem["$0.dimensions"] = k4val{kind: 2, f: 2}
				it.mem["$0.pos"] = k4val{kind: 2, f: 0}
				it.mem["$0.twkb"] = k4val{kind: 8, s: "IN", ln: 100, cp: 100}
				for d := 0; d < 2; d++ {
					it.mem[fmt.Sprintf("$0.scalings[%d]", d)] = k4val{kind: 2, f: scale}
					it.mem[fmt.Sprintf("$0.refpoint[%d]", d)] = k4val{kind: 2, f: ref[d]}
				}
				n := -1
				it.onOpaque = func(name string, args []k4val) {
					if strings.HasSuffix(name, ").parseSignedVarint") {
						n++
					}
				}
				it.answer = func(key string, isBool bool) (k4val, bool) {
					if !strings.Contains(key, "parseSignedVarint(") {
						return k4val{}, false
					}
					if isBool {
						return k4val{kind: 1, b: strings.Contains(key, "==nil")}, true
					}
					if n >= 0 && n < 4 {
						return k4val{kind: 2, f: de[n]}, true
					}
					return k4val{}, false
				}
				res, err := it.call(f, []k4val{{kind: 3, s: "$0"}, {kind: 2, f: 2}}, nil)
				if err != nil || len(res) != 2 || res[0].kind != 8 {
					undec = fmt.Sprintf("%v %v %s", err, res, missingList(m))
					break
				}
				// exact value of k / scale: for a negative precision (scale 10^-5) that is k * 10^5
				un := func(k float64) float64 {
					if scale < 1 {
						return k * 1e5
					}
					return k / scale
				}
				want := []float64{un(ref[0] + de[0]), un(ref[1] + de[1]), un(ref[0] + de[0] + de[2]), un(ref[1] + de[1] + de[3])}
				var got []float64
				for i := 0; i < res[0].ln; i++ {
					v, _ := it.lookup(fmt.Sprintf("%s[%d]", res[0].s, res[0].off+i), nil0)
					got = append(got, v.f)
				}
				if fmt.Sprint(got) != fmt.Sprint(want) {
					problem = fmt.Sprintf("for deltas %v, scale %v, reference %v the decoded ordinates are %v, expected exactly %v", de, scale, ref, got, want)
				}
			}
		}
		reportK4(c, f, "delta decoding", undec, problem, fmt.Sprintf("running sum of the deltas per dimension, exactly unscaled (also for a negative precision), in all %d models", models))
	}
}
