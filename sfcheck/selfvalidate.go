package main

import (
	"bufio"
	"encoding/json"
	"fmt"
	"os"
	"os/exec"
	"path/filepath"
	"sort"
	"strings"
)

// Mutant patches live in /verif/mutants/*.patch. Header lines (before the
// diff) of the form
//
//	# property: C08
//	# expect: <substring of an obligation key that must be reported>
//
// The thorough tier applies each patch of the property to a scratch copy of
// the repository's working tree (outside /repo and /verif), analyses the copy
// with the same rules in a subprocess and requires the expected obligation to
// be reported; the copy is removed at once. This is the checker's positive
// control: a rule that can no longer see its own canonical breakage is a
// broken check (exit 2), not a pass.
type mutant struct {
	Path     string
	Name     string
	Property string
	Expect   []string
	AnyRule  []string // seeded changes: one of these rules must report a violation
	Neutral  bool     // behaviour-preserving refactor: the check must stay silent
}

// readNeutrals returns the behaviour-preserving refactors kept in
// /verif/neutral/<Cxx-nK>/patch.diff (written by sub-agents playing a
// maintainer; suite green, behaviour unchanged). They are the negative control:
// the check of the property they were written against must not raise anything.
func readNeutrals(dir string) []mutant {
	ds, _ := filepath.Glob(filepath.Join(dir, "C*-n*", "patch.diff"))
	sort.Strings(ds)
	var ms []mutant
	for _, d := range ds {
		name := filepath.Base(filepath.Dir(d))
		ms = append(ms, mutant{Path: d, Name: "neutral/" + name, Property: name[:3], Neutral: true})
	}
	return ms
}

// readSeeds returns the sub-agent seeded changes (/verif/seeded/<id>/patch.diff)
// that the checks are recorded as catching in seeded/expected.json (written by
// hand from `seedtest.py detectown`, never at check time). Seeds with an empty
// rule list are the recorded misses and are not run.
func readSeeds(dir string) ([]mutant, error) {
	b, err := os.ReadFile(filepath.Join(dir, "expected.json"))
	if err != nil {
		if os.IsNotExist(err) {
			return nil, nil
		}
		return nil, err
	}
	var exp map[string]struct {
		Property string   `json:"property"`
		Rules    []string `json:"rules"`
	}
	if err := json.Unmarshal(b, &exp); err != nil {
		return nil, fmt.Errorf("seeded/expected.json: %w", err)
	}
	var names []string
	for n := range exp {
		names = append(names, n)
	}
	sort.Strings(names)
	var ms []mutant
	for _, n := range names {
		e := exp[n]
		if len(e.Rules) == 0 {
			continue
		}
		ms = append(ms, mutant{Path: filepath.Join(dir, n, "patch.diff"), Name: "seeded/" + n, Property: e.Property, AnyRule: e.Rules})
	}
	return ms, nil
}

func readMutants(dir string) ([]mutant, error) {
	files, _ := filepath.Glob(filepath.Join(dir, "*.patch"))
	sort.Strings(files)
	var ms []mutant
	for _, f := range files {
		fh, err := os.Open(f)
		if err != nil {
			return nil, err
		}
		m := mutant{Path: f, Name: strings.TrimSuffix(filepath.Base(f), ".patch")}
		sc := bufio.NewScanner(fh)
		for sc.Scan() {
			l := sc.Text()
			if !strings.HasPrefix(l, "#") {
				break
			}
			l = strings.TrimSpace(strings.TrimPrefix(l, "#"))
			if v, ok := strings.CutPrefix(l, "property:"); ok {
				m.Property = strings.TrimSpace(v)
			}
			if v, ok := strings.CutPrefix(l, "expect:"); ok {
				m.Expect = append(m.Expect, strings.TrimSpace(v))
			}
		}
		fh.Close()
		if m.Property == "" || len(m.Expect) == 0 {
			return nil, fmt.Errorf("mutant %s lacks '# property:' or '# expect:' header", f)
		}
		ms = append(ms, m)
	}
	return ms, nil
}

func copyTree(src, dst string) error {
	// rsync is available; exclude VCS data.
	cmd := exec.Command("rsync", "-a", "--exclude", ".git", src+"/", dst+"/")
	out, err := cmd.CombinedOutput()
	if err != nil {
		return fmt.Errorf("rsync: %v: %s", err, out)
	}
	return nil
}

func selfValidate(res *RunResult, repo, verif string) {
	runFixtures(res, verif)
	ms, err := readMutants(filepath.Join(verif, "mutants"))
	if err != nil {
		res.Errs = append(res.Errs, err.Error())
		return
	}
	self, err := os.Executable()
	if err != nil {
		res.Errs = append(res.Errs, err.Error())
		return
	}
	seeds, err := readSeeds(filepath.Join(verif, "seeded"))
	if err != nil {
		res.Errs = append(res.Errs, err.Error())
		return
	}
	ms = append(ms, seeds...)
	ms = append(ms, readNeutrals(filepath.Join(verif, "neutral"))...)
	for _, m := range ms {
		if m.Property != res.Prop {
			continue
		}
		tmp, err := os.MkdirTemp("", "sfcheck-mut-")
		if err != nil {
			res.Errs = append(res.Errs, err.Error())
			return
		}
		func() {
			defer os.RemoveAll(tmp)
			if err := copyTree(repo, tmp); err != nil {
				res.Errs = append(res.Errs, err.Error())
				return
			}
			ap := exec.Command("patch", "-p1", "-s", "-f", "--no-backup-if-mismatch", "-i", m.Path)
			ap.Dir = tmp
			if out, err := ap.CombinedOutput(); err != nil {
				// the working tree differs from the tree the mutant was cut
				// for (e.g. it has itself been edited): not a verdict.
				res.MutantsRun = append(res.MutantsRun, fmt.Sprintf("%s: skipped, patch does not apply to the current tree (%s)", m.Name, firstLine(string(out))))
				return
			}
			cmd := exec.Command(self, "check", "-prop", res.Prop, "-tier", "quick", "-repo", tmp, "-verif", verif, "-no-evidence")
			out, _ := cmd.CombinedOutput()
			text := string(out)
			if m.Neutral {
				for _, l := range strings.Split(text, "\n") {
					if strings.HasPrefix(l, "OBL violated") || strings.HasPrefix(l, "OBL undecided") || strings.HasPrefix(l, "ERROR") {
						res.Errs = append(res.Errs, fmt.Sprintf("self-validation: behaviour-preserving refactor %s raises a false alarm: %s", m.Name, truncate(l, 400)))
						return
					}
				}
				res.MutantsRun = append(res.MutantsRun, m.Name+": silent")
				return
			}
			if len(m.AnyRule) > 0 {
				found := false
				for _, l := range strings.Split(text, "\n") {
					f := strings.Fields(l)
					if len(f) >= 3 && f[0] == "OBL" && (f[1] == "violated" || f[1] == "undecided") {
						for _, r := range m.AnyRule {
							if f[2] == r {
								found = true
							}
						}
					}
				}
				if !found {
					res.Errs = append(res.Errs, fmt.Sprintf("self-validation: seeded change %s no longer reported by any of %v; output: %s", m.Name, m.AnyRule, truncate(text, 600)))
					return
				}
			}
			for _, want := range m.Expect {
				found := false
				for _, l := range strings.Split(text, "\n") {
					if strings.HasPrefix(l, "OBL ") && strings.Contains(l, want) {
						found = true
					}
				}
				if !found {
					res.Errs = append(res.Errs, fmt.Sprintf("self-validation: mutant %s did not produce expected obligation %q; output: %s", m.Name, want, truncate(text, 600)))
					return
				}
			}
			res.MutantsRun = append(res.MutantsRun, m.Name+": detected")
		}()
	}
}

func firstLine(s string) string {
	if i := strings.IndexByte(s, '\n'); i >= 0 {
		return s[:i]
	}
	return s
}

func truncate(s string, n int) string {
	if len(s) > n {
		return s[:n] + "…"
	}
	return s
}

// runFixtures is the positive control for rules whose expected violation
// count on the repository is zero and whose scope is generic.
func runFixtures(res *RunResult, verif string) {
	for _, r := range res.Rules {
		if fx, ok := fixtureChecks[r.ID]; ok {
			if msg := fx(); msg != "" {
				res.Errs = append(res.Errs, fmt.Sprintf("fixture for %s did not fire: %s", r.ID, msg))
			} else {
				res.Fixtures = append(res.Fixtures, r.ID)
			}
		}
	}
}

// fixtureChecks maps a rule to an in-process positive control (returns "" when
// the rule's core predicate fires on a violating example).
var fixtureChecks = map[string]func() string{}

func cmdExplain(args []string) int {
	if len(args) < 1 {
		fmt.Println("usage: sfcheck explain <replay.json>")
		return 2
	}
	b, err := os.ReadFile(args[0])
	if err != nil {
		fmt.Println("ERROR", err)
		return 2
	}
	var v struct {
		Property   string     `json:"property"`
		Obligation Obligation `json:"obligation"`
		Tier       string     `json:"tier"`
	}
	if err := json.Unmarshal(b, &v); err != nil {
		fmt.Println("ERROR", err)
		return 2
	}
	fmt.Printf("property:   %s\nrule:       %s\nobligation: %s\nwhere:      %s\nstatus:     %s\nwhy:        %s\n", v.Property, v.Obligation.Rule, v.Obligation.Key, v.Obligation.Pos, v.Obligation.Status, v.Obligation.Fact)
	fmt.Printf("re-evaluating rule %s against /repo ...\n", v.Obligation.Rule)
	code := cmdCheck([]string{"-prop", v.Property, "-rule", v.Obligation.Rule, "-no-evidence"})
	return code
}
