package main

import (
	"fmt"
	"os"
	"strings"
)

// cmdDump prints the SSA of functions whose canonical name contains the
// argument (debugging aid).
func cmdDump(args []string) int {
	repo := "/repo"
	if len(args) > 1 {
		repo = args[1]
	}
	p, err := Load(repo, BuildConfig{"linux", "amd64"})
	if err != nil {
		fmt.Println("ERROR", err)
		return 2
	}
	pat := ""
	if len(args) > 0 {
		pat = args[0]
	}
	if pat == "-baseline" {
		dumpBaseline(p)
		return 0
	}
	if strings.HasPrefix(pat, "-siblings=") {
		dumpSiblings(&Ctx{P: p}, strings.Split(strings.TrimPrefix(pat, "-siblings="), ","))
		return 0
	}
	if pat == "-boolloops" {
		dumpBoolLoops(&Ctx{P: p})
		return 0
	}
	if pat == "-firstindex" {
		dumpFirstIndex(&Ctx{P: p})
		return 0
	}
	if pat == "-localarrays" {
		dumpLocalArrays(&Ctx{P: p})
		return 0
	}
	if pat == "-filterloops" {
		dumpFilterLoops(&Ctx{P: p})
		return 0
	}
	if pat == "-minusone" {
		dumpMinusOne(&Ctx{P: p})
		return 0
	}
	if pat == "-countloops" {
		dumpCountLoops(&Ctx{P: p})
		return 0
	}
	if pat == "-renames" {
		for _, n := range renameNotes {
			fmt.Println(n)
		}
		return 0
	}
	for _, f := range p.Funcs {
		n := FuncName(f)
		if pat == "-names" {
			fmt.Println(n)
			continue
		}
		if strings.Contains(n, pat) {
			fmt.Println("=====", n)
			f.WriteTo(os.Stdout)
		}
	}
	return 0
}
