#!/bin/sh
# Rebuild the checker, regenerate MANIFEST.json, run every claimed check (quick tier by default) and validate schemas.
tier=${1:-quick}
cd /verif/sfcheck && GOFLAGS=-mod=mod GOPROXY=off GOSUMDB=off GOTOOLCHAIN=local GOWORK=off go build -o /verif/bin/sfcheck . || exit 1
cd /verif && bin/sfcheck manifest > MANIFEST.json
rc=0
for p in $(python3 -c "import json;print(' '.join(c['property_id'] for c in json.load(open('/verif/MANIFEST.json'))['checks']))"); do
  bin/sfcheck check -prop $p -tier $tier > /tmp/sfcheck-$p.log 2>&1; e=$?
  tail -1 /tmp/sfcheck-$p.log
  if [ $e != 0 ]; then rc=1; grep -E "VIOLATION|ERROR|KNOWN" /tmp/sfcheck-$p.log | head -5; fi
done
./validate.sh | grep -v "^ok" 
exit $rc
