#!/usr/bin/env python3
"""Confirm seeded regressions and run the checks against them.

usage: seedtest.py confirm <seed-dir>...   # patch applies, suite passes, demo fails with / passes without
       seedtest.py detect  <seed-dir>...   # run sfcheck (all rules) on a scratch copy with the patch applied
Seed dir contains patch.diff, demo_test.go (header '// place in: <dir>'), meta.json.
Scratch worktrees are created under /tmp and removed at once.
"""
import json, os, re, shutil, subprocess, sys, tempfile
ENV = dict(os.environ, GOFLAGS='-mod=mod', GOPROXY='off', GOSUMDB='off', GOTOOLCHAIN='local')
def sh(cmd, cwd=None, timeout=900):
    p = subprocess.run(cmd, shell=True, cwd=cwd, env=ENV, capture_output=True, text=True, timeout=timeout)
    return p.returncode, p.stdout + p.stderr
def worktree():
    d = tempfile.mkdtemp(prefix='seedwt-')
    os.rmdir(d)
    rc, out = sh(f'git -C /repo worktree add --detach {d} HEAD')
    assert rc == 0, out
    return d
def rm(d):
    sh(f'git -C /repo worktree remove --force {d}')
    shutil.rmtree(d, ignore_errors=True)
def place(seed):
    src = open(os.path.join(seed, 'demo_test.go')).read()
    m = re.search(r'//\s*place in:\s*(\S+)', src)
    return m.group(1).strip('/') if m else 'geom'
def confirm(seed):
    d = worktree()
    res = {}
    try:
        rc, out = sh(f'git apply {os.path.abspath(seed)}/patch.diff', cwd=d)
        res['applies'] = rc == 0
        if rc != 0:
            res['apply_error'] = out[-300:]
            return res
        rc, out = sh('go build ./geom ./rtree ./carto && go vet ./geom ./rtree ./carto', cwd=d)
        res['builds'] = rc == 0
        rc, out = sh('go test -count=1 ./geom/... ./rtree/... ./carto/... ./internal/cartodemo/...', cwd=d)
        res['suite_passes_with_change'] = rc == 0
        if rc != 0: res['suite_out'] = out[-500:]
        pd = place(seed)
        demo = os.path.join(d, pd, 'zz_seed_demo_test.go')
        shutil.copy(os.path.join(seed, 'demo_test.go'), demo)
        rc, out = sh(f'go test -count=1 -run TestSeed_ ./{pd}', cwd=d)
        res['demo_fails_with_change'] = rc != 0 and 'FAIL' in out
        sh(f'git apply -R {os.path.abspath(seed)}/patch.diff', cwd=d)
        rc, out = sh(f'go test -count=1 -run TestSeed_ ./{pd}', cwd=d)
        res['demo_passes_without_change'] = rc == 0
        if rc != 0: res['demo_clean_out'] = out[-500:]
    finally:
        rm(d)
    return res
def detect(seed):
    d = worktree()
    try:
        rc, out = sh(f'git apply {os.path.abspath(seed)}/patch.diff', cwd=d)
        if rc != 0:
            rc, out = sh(f'patch -p1 -s -f --no-backup-if-mismatch -i {os.path.abspath(seed)}/patch.diff', cwd=d)
        if rc != 0:
            return {'applies': False}
        rc, out = sh(os.environ.get('SFCHECK_BIN','/verif/bin/sfcheck') + f' all -repo {d}')
        hits = [l for l in out.splitlines() if l.startswith('OBL ') or l.startswith('ERROR')]
        return {'applies': True, 'exit': rc, 'hits': hits}
    finally:
        rm(d)
def detectown(seed):
    """run only the check of the seed's own property"""
    prop = json.load(open(os.path.join(seed, 'meta.json')))['property']
    d = worktree()
    try:
        rc, out = sh(f'git apply {os.path.abspath(seed)}/patch.diff', cwd=d)
        if rc != 0:
            return {'applies': False}
        rc, out = sh(os.environ.get('SFCHECK_BIN','/verif/bin/sfcheck') + f' check -prop {prop} -tier quick -no-evidence -repo {d}')
        rules = sorted({l.split()[2] for l in out.splitlines() if l.startswith('OBL violated') or l.startswith('OBL undecided')})
        errs = [l for l in out.splitlines() if l.startswith('ERROR')]
        return {'applies': True, 'property': prop, 'exit': rc, 'rules': rules, 'errors': errs}
    finally:
        rm(d)
if __name__ == '__main__':
    mode = sys.argv[1]
    for seed in sys.argv[2:]:
        seed = seed.rstrip('/')
        r = confirm(seed) if mode == 'confirm' else detectown(seed) if mode == 'detectown' else detect(seed)
        print(json.dumps({'seed': seed, **r}))
        sys.stdout.flush()
