// opmut: development aid (not a check). Enumerates single-point mutations of a
// Go file (relational operator replacement, condition negation, boolean /
// small integer constant replacement, continue/break swap, statement deletion
// of assignments and calls) and writes mutant k of the file to stdout.
//
//	opmut -list file            prints "k<TAB>line<TAB>description" for every mutation site
//	opmut file k                writes the file with mutation k applied
package main

import (
	"fmt"
	"go/ast"
	"go/parser"
	"go/token"
	"os"
	"strconv"
)

type mut struct {
	start, end int // byte offsets replaced
	repl       string
	line       int
	desc       string
}

func main() {
	list := false
	args := os.Args[1:]
	if len(args) > 0 && args[0] == "-list" {
		list = true
		args = args[1:]
	}
	file := args[0]
	src, err := os.ReadFile(file)
	if err != nil {
		panic(err)
	}
	fset := token.NewFileSet()
	f, err := parser.ParseFile(fset, file, src, parser.ParseComments)
	if err != nil {
		panic(err)
	}
	off := func(p token.Pos) int { return fset.Position(p).Offset }
	var muts []mut
	add := func(s, e token.Pos, repl, desc string) {
		muts = append(muts, mut{off(s), off(e), repl, fset.Position(s).Line, desc})
	}
	relSwap := map[token.Token][]string{
		token.LSS: {"<=", ">"}, token.LEQ: {"<", ">"}, token.GTR: {">=", "<"}, token.GEQ: {">", "<"},
		token.EQL: {"!="}, token.NEQ: {"=="},
		token.LAND: {"||"}, token.LOR: {"&&"},
		token.ADD: {"-"}, token.SUB: {"+"},
	}
	inFunc := ""
	ast.Inspect(f, func(n ast.Node) bool {
		switch x := n.(type) {
		case *ast.FuncDecl:
			inFunc = x.Name.Name
			if x.Name.Name == "String" || x.Name.Name == "Error" || x.Name.Name == "Summary" {
				return false
			}
		case *ast.BinaryExpr:
			for _, r := range relSwap[x.Op] {
				add(x.OpPos, x.OpPos+token.Pos(len(x.Op.String())), r, fmt.Sprintf("%s: %s -> %s", inFunc, x.Op, r))
			}
		case *ast.IfStmt:
			add(x.Cond.Pos(), x.Cond.End(), "!("+string(src[off(x.Cond.Pos()):off(x.Cond.End())])+")", inFunc+": negate if condition")
		case *ast.BasicLit:
			if x.Kind == token.INT {
				switch x.Value {
				case "0":
					add(x.Pos(), x.End(), "1", inFunc+": 0 -> 1")
				case "1":
					add(x.Pos(), x.End(), "0", inFunc+": 1 -> 0")
					add(x.Pos(), x.End(), "2", inFunc+": 1 -> 2")
				case "2":
					add(x.Pos(), x.End(), "1", inFunc+": 2 -> 1")
				}
			}
		case *ast.Ident:
			switch x.Name {
			case "true":
				add(x.Pos(), x.End(), "false", inFunc+": true -> false")
			case "false":
				add(x.Pos(), x.End(), "true", inFunc+": false -> true")
			case "DimXY":
				add(x.Pos(), x.End(), "DimXYZ", inFunc+": DimXY -> DimXYZ")
			}
		case *ast.BranchStmt:
			switch x.Tok {
			case token.CONTINUE:
				if x.Label == nil {
					add(x.Pos(), x.End(), "break", inFunc+": continue -> break")
				}
			case token.BREAK:
				if x.Label == nil {
					add(x.Pos(), x.End(), "continue", inFunc+": break -> continue")
				}
			}
		case *ast.BlockStmt:
			for _, s := range x.List {
				switch st := s.(type) {
				case *ast.ExprStmt:
					add(st.Pos(), st.End(), "", inFunc+": delete call statement")
				case *ast.AssignStmt:
					if st.Tok == token.ASSIGN || st.Tok == token.ADD_ASSIGN || st.Tok == token.SUB_ASSIGN {
						add(st.Pos(), st.End(), "", inFunc+": delete assignment")
					}
				case *ast.IncDecStmt:
					add(st.Pos(), st.End(), "", inFunc+": delete inc/dec")
				case *ast.IfStmt:
					if st.Else == nil && st.Init == nil {
						add(st.Pos(), st.End(), "", inFunc+": delete if statement")
					}
				}
			}
		}
		return true
	})
	if list {
		for k, m := range muts {
			fmt.Printf("%d\t%d\t%s\n", k, m.line, m.desc)
		}
		return
	}
	k, _ := strconv.Atoi(args[1])
	if k < 0 || k >= len(muts) {
		os.Exit(3)
	}
	m := muts[k]
	out := append(append(append([]byte{}, src[:m.start]...), m.repl...), src[m.end:]...)
	os.Stdout.Write(out)
}
