module opmut

go 1.21
