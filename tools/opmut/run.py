#!/usr/bin/env python3
"""Development aid: operator-level mutation screening.
For every mutant of geom/rtree/carto sources: build; if the mutated line is covered by the tests, run the package tests
(killed mutants are dropped); run `sfcheck all` on the rest. Results: /tmp/om/results.jsonl (resumable)."""
import re, sys, os, json, subprocess, concurrent.futures, threading, queue, random, glob
ENV = dict(os.environ, GOFLAGS='-mod=mod', GOPROXY='off', GOSUMDB='off', GOTOOLCHAIN='local')
def sh(cmd, cwd=None, timeout=1200):
    try:
        p = subprocess.run(cmd, shell=True, cwd=cwd, env=ENV, capture_output=True, text=True, timeout=timeout)
        return p.returncode, p.stdout + p.stderr
    except subprocess.TimeoutExpired:
        return 124, 'timeout'
covered = {}
for prof in glob.glob('/tmp/cov/*.out'):
    for l in open(prof):
        m = re.match(r'(\S+):(\d+)\.(\d+),(\d+)\.(\d+) (\d+) (\d+)', l)
        if not m: continue
        f, sl, sc, el, ec, ns, cnt = m.groups()
        f = f.replace('github.com/peterstace/simplefeatures/', '')
        for ln in range(int(sl), int(el) + 1):
            covered[(f, ln)] = covered.get((f, ln), 0) + int(cnt)
os.makedirs('/tmp/om', exist_ok=True)
done = set()
if os.path.exists('/tmp/om/results.jsonl'):
    for l in open('/tmp/om/results.jsonl'):
        r = json.loads(l); done.add((r['file'], r['k']))
jobs = []
for pkg in ['geom', 'rtree', 'carto']:
    for f in sorted(glob.glob(f'/repo/{pkg}/*.go')):
        if f.endswith('_test.go') or 'debug' in f: continue
        rel = f[len('/repo/'):]
        rc, out = sh(f'/verif/bin/opmut -list {f}')
        for l in out.splitlines():
            k, line, desc = l.split('\t')
            if (rel, int(k)) not in done:
                jobs.append((rel, int(k), int(line), desc, pkg))
random.seed(1)
random.shuffle(jobs)
limit = int(sys.argv[1]) if len(sys.argv) > 1 else len(jobs)
jobs = jobs[:limit]
N = int(os.environ.get('OM_WORKERS', '8'))
pool = queue.Queue()
for k in range(N):
    d = f'/tmp/om/wt{k}'
    sh(f'git -C /repo worktree remove --force {d}'); sh(f'rm -rf {d}')
    rc, out = sh(f'git -C /repo worktree add --detach {d} HEAD'); assert rc == 0, out
    pool.put(d)
lock = threading.Lock()
outf = open('/tmp/om/results.jsonl', 'a')
def work(j):
    rel, k, line, desc, pkg = j
    d = pool.get()
    res = {'file': rel, 'k': k, 'line': line, 'desc': desc}
    try:
        rc, out = sh(f'/verif/bin/opmut {d}/{rel} {k} > /tmp/om/mut.{os.path.basename(d)}')
        if rc != 0:
            res['status'] = 'skip'; return res
        sh(f'cp /tmp/om/mut.{os.path.basename(d)} {d}/{rel}')
        rc, out = sh(f'go build ./{pkg}', cwd=d)
        if rc != 0:
            res['status'] = 'nobuild'; return res
        cov = covered.get((rel, line), 0) > 0
        res['covered'] = cov
        if cov:
            pk = './geom ./rtree' if pkg == 'rtree' else f'./{pkg}'
            rc, out = sh(f'go test -count=1 -timeout 120s {pk}', cwd=d, timeout=300)
            if rc != 0:
                res['status'] = 'killed'; return res
        rc, out = sh(f'/verif/bin/sfcheck all -repo {d}')
        hits = sorted({' | '.join(l.split(' | ')[:2])[:110] for l in out.splitlines() if l.startswith('OBL ') or l.startswith('ERROR')})
        res['status'] = 'caught' if rc != 0 else 'survived'
        res['hits'] = hits[:5]
        if res['status'] == 'survived':
            rc, diff = sh('git diff -U1', cwd=d)
            res['diff'] = diff[-900:]
        return res
    finally:
        sh('git checkout -- .', cwd=d)
        pool.put(d)
with concurrent.futures.ThreadPoolExecutor(N) as ex:
    for r in ex.map(work, jobs):
        with lock:
            outf.write(json.dumps(r) + '\n'); outf.flush()
for k in range(N):
    sh(f'git -C /repo worktree remove --force /tmp/om/wt{k}')
print('done', len(jobs))
