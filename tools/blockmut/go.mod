module blockmut

go 1.21
