// blockmut: development aid (not a check). Given a Go file and a line range of
// a block that the repository's tests never execute, delete the statements of
// that block (keeping the surrounding braces / case label) and write the
// mutated file to stdout. Exit 3 when the range is a whole function body or no
// statement list matches.
package main

import (
	"fmt"
	"go/ast"
	"go/parser"
	"go/token"
	"os"
	"strconv"
)

func main() {
	if len(os.Args) != 6 {
		fmt.Fprintln(os.Stderr, "usage: blockmut file startLine startCol endLine endCol")
		os.Exit(2)
	}
	file := os.Args[1]
	sl, _ := strconv.Atoi(os.Args[2])
	sc, _ := strconv.Atoi(os.Args[3])
	el, _ := strconv.Atoi(os.Args[4])
	ec, _ := strconv.Atoi(os.Args[5])
	src, err := os.ReadFile(file)
	if err != nil {
		panic(err)
	}
	fset := token.NewFileSet()
	f, err := parser.ParseFile(fset, file, src, parser.ParseComments)
	if err != nil {
		panic(err)
	}
	inRange := func(p token.Pos) bool {
		pos := fset.Position(p)
		if pos.Line < sl || (pos.Line == sl && pos.Column < sc) {
			return false
		}
		if pos.Line > el || (pos.Line == el && pos.Column > ec) {
			return false
		}
		return true
	}
	var best []ast.Stmt
	isFuncBody := false
	consider := func(list []ast.Stmt, funcBody bool) {
		var sel []ast.Stmt
		for _, s := range list {
			if inRange(s.Pos()) && inRange(s.End()) {
				sel = append(sel, s)
			}
		}
		if len(sel) > 0 && (best == nil) {
			best = sel
			isFuncBody = funcBody && len(sel) == len(list)
		}
	}
	ast.Inspect(f, func(n ast.Node) bool {
		switch x := n.(type) {
		case *ast.FuncDecl:
			if x.Body != nil {
				consider(x.Body.List, true)
			}
		case *ast.FuncLit:
			consider(x.Body.List, true)
		case *ast.BlockStmt:
			consider(x.List, false)
		case *ast.CaseClause:
			consider(x.Body, false)
		case *ast.CommClause:
			consider(x.Body, false)
		}
		return true
	})
	if best == nil || isFuncBody {
		os.Exit(3)
	}
	a := fset.Position(best[0].Pos()).Offset
	b := fset.Position(best[len(best)-1].End()).Offset
	out := append(append([]byte{}, src[:a]...), src[b:]...)
	os.Stdout.Write(out)
}
