#!/usr/bin/env python3
"""Development aid: delete each block the tests never execute and see which rule notices.
usage: run.py <coverage profile>... ; writes /tmp/bm/results.jsonl"""
import re, sys, os, json, subprocess, concurrent.futures, threading, queue
ENV = dict(os.environ, GOFLAGS='-mod=mod', GOPROXY='off', GOSUMDB='off', GOTOOLCHAIN='local')
def sh(cmd, cwd=None, timeout=900):
    p = subprocess.run(cmd, shell=True, cwd=cwd, env=ENV, capture_output=True, text=True, timeout=timeout)
    return p.returncode, p.stdout + p.stderr
blocks = []
for prof in sys.argv[1:]:
    for l in open(prof):
        m = re.match(r'(\S+):(\d+)\.(\d+),(\d+)\.(\d+) (\d+) (\d+)', l)
        if not m: continue
        f, sl, sc, el, ec, ns, cnt = m.groups()
        if int(cnt) == 0 and 'debug' not in f:
            blocks.append((f.replace('github.com/peterstace/simplefeatures/', ''), int(sl), int(sc), int(el), int(ec)))
blocks = sorted(set(blocks))
os.makedirs('/tmp/bm', exist_ok=True)
N = 8
pool = queue.Queue()
for k in range(N):
    d = f'/tmp/bm/wt{k}'
    sh(f'git -C /repo worktree remove --force {d}'); sh(f'rm -rf {d}')
    rc, out = sh(f'git -C /repo worktree add --detach {d} HEAD')
    assert rc == 0, out
    pool.put(d)
lock = threading.Lock()
outf = open('/tmp/bm/results.jsonl', 'w')
def work(b):
    f, sl, sc, el, ec = b
    d = pool.get()
    try:
        res = {'file': f, 'range': [sl, sc, el, ec]}
        rc, out = sh(f'/verif/bin/blockmut {d}/{f} {sl} {sc} {el} {ec} > /tmp/bm/mut.{os.path.basename(d)}')
        if rc != 0:
            res['status'] = 'skip'
            return res
        src = open(f'{d}/{f}').read().split('\n')
        res['text'] = ' '.join(x.strip() for x in src[sl-1:el])[:200]
        sh(f'cp /tmp/bm/mut.{os.path.basename(d)} {d}/{f}')
        rc, out = sh('go build ./geom ./rtree ./carto', cwd=d)
        if rc != 0:
            res['status'] = 'nobuild'; res['err'] = out[-200:]
        else:
            rc, out = sh(f'/verif/bin/sfcheck all -repo {d}')
            hits = sorted({' | '.join(l.split(' | ')[:2])[:120] for l in out.splitlines() if l.startswith('OBL ') or l.startswith('ERROR')})
            res['status'] = 'caught' if rc != 0 else 'survived'
            res['hits'] = hits[:6]
        sh('git checkout -- .', cwd=d)
        return res
    finally:
        pool.put(d)
with concurrent.futures.ThreadPoolExecutor(N) as ex:
    for r in ex.map(work, blocks):
        with lock:
            outf.write(json.dumps(r) + '\n'); outf.flush()
for k in range(N):
    sh(f'git -C /repo worktree remove --force /tmp/bm/wt{k}')
print('done', len(blocks))
