#!/bin/sh
# validates MANIFEST.json and all evidence files against the schemas
python3-vt - <<'PY'
import json,jsonschema,glob,sys
jsonschema.validate(json.load(open('/verif/MANIFEST.json')), json.load(open('/root/.vp/MANIFEST.schema.json')))
print('manifest ok')
s=json.load(open('/root/.vp/EVIDENCE.schema.json'))
for f in sorted(glob.glob('/verif/evidence/*.json')):
    jsonschema.validate(json.load(open(f)), s)
    print('ok', f)
PY
