#!/bin/sh
# usage: mm.sh <name> <property> <expect-substring>...   (takes the diff of /tmp/hm/wt, verifies detection, saves mutant, reverts)
name=$1; prop=$2; shift 2
cd /tmp/hm/wt || exit 1
export GOFLAGS=-mod=mod GOPROXY=off GOSUMDB=off GOTOOLCHAIN=local
if ! go build ./geom ./rtree ./carto; then echo "MUTANT DOES NOT COMPILE"; git checkout -q -- .; exit 1; fi
out=$(/verif/bin/sfcheck check -prop $prop -repo /tmp/hm/wt -no-evidence 2>&1)
ok=1
for e in "$@"; do
  if ! printf '%s\n' "$out" | grep -F "OBL " | grep -qF -- "$e"; then echo "NOT DETECTED: $e"; ok=0; fi
done
if [ $ok = 1 ]; then
  { echo "# property: $prop"; for e in "$@"; do echo "# expect: $e"; done; echo "# hand-written mutant (acceptance battery, DESIGN §10.2)"; git diff; } > /verif/mutants/$name.patch
  echo "saved $name: $(printf '%s\n' "$out" | grep -c '^OBL ') obligations reported"
else
  printf '%s\n' "$out" | grep -v "^sfcheck" | cut -c1-250 | head -8
fi
git checkout -q -- .
