#!/bin/sh
# usage: mkmut.sh <name> <property> <fix-commit> <expect-key>...   -> mutants/<name>.patch = reverse of the fix commit
name=$1; prop=$2; commit=$3; shift 3
{
  echo "# property: $prop"
  for e in "$@"; do echo "# expect: $e"; done
  echo "# pre-fix shape of a repaired defect (reverse of /repo commit $commit)"
  git -C /repo diff $commit $commit~1
} > /verif/mutants/$name.patch
