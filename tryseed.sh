#!/bin/bash
# usage: tryseed.sh <patch.diff> <prop> [rule]   — run one property's check (optionally one rule) on a scratch worktree with the patch applied
set -u
WT=/tmp/trywt.$$
git -C /repo worktree add --detach $WT HEAD >/dev/null 2>&1 || exit 3
trap "git -C /repo worktree remove --force $WT >/dev/null 2>&1; rm -rf $WT" EXIT
git -C $WT apply "$1" || { echo "patch does not apply"; exit 3; }
if [ $# -ge 3 ]; then
  ${SFCHECK_BIN:-/verif/bin/sfcheck} check -prop $2 -rule $3 -tier quick -no-evidence -repo $WT 2>&1 | grep -v "^COUNT" | cut -c1-600 | tail -8
else
  ${SFCHECK_BIN:-/verif/bin/sfcheck} check -prop $2 -tier quick -no-evidence -repo $WT 2>&1 | grep -v "^COUNT" | cut -c1-600 | tail -8
fi
